"""C39 -- Optimizers return truthful, feasible, improving results (driver clauses only).

Optimality, descent and feasibility of the iterates are produced by the vendored solvers (L-BFGS, L-BFGS-B, IPOPT, c-cmaes) and are NOT
decided.  What is visible in the shape of Simbody's own driver code, and is a necessary condition of the statement:
 EVALGATE  CMA-ES: every sampled population passes resampleToObeyLimits before it is evaluated; that routine lets a sample through only
           after testing every coordinate against BOTH limits of the SAME index (lower/upper taken from getParameterLimits in that
           order); the start point is tested likewise before cmaes is initialised; every member pop[i] is evaluated into funvals[i].
 PAIR      the objective value returned belongs to the parameters returned: CMA-ES copies x<key> and returns f<key> with the same key;
           L-BFGS re-evaluates the objective at `results` into the returned variable after the solver's last write of `results`;
           IPOPT receives `&results[0]` and `&obj` in the same solve call and returns obj; the objective/gradient/constraint wrappers
           hand the system function a view of the SAME parameter array and the caller's output location, and map status 0 to success.
 STATUS    a driver returns normally only where the backend reported convergence (L-BFGS-B: task "CONV"; IPOPT: Solve_Succeeded /
           Solved_To_Acceptable_Level; every other status throws OptimizerFailed).
 LIMITS    the limits handed to the backends are the system's: L-BFGS-B gets (lower, upper) from getParameterLimits in that order and
           bound codes nbd that agree with L-BFGS-B's table (0 none, 1 lower only, 2 both, 3 upper only) for all four infinite/finite
           combinations; IPOPT gets them as (x_L, x_U); its constraint rows are [0, nEq) equalities (g_L = g_U = 0) and [nEq, m)
           inequalities (g_L = 0, g_U = +inf); its constraint-violation options take constraintTolerance, the others convergenceTolerance.
 SELECT    BestAvailable: with constraints the interior-point driver, with limits one that honours limits -- the unconstrained L-BFGS
           driver is constructed by default only where `no constraints` and `no limits` are both known."""
import re
from ..facts import extract, units_matching, Program, sx_find, sx_str
from ..match import call_args, call_obj, var_of, field_of, ev_write, known_edges, only_via, expand_locals, value_sets, _const_of, subst
from ..columns import _loop_var, _steps, _lit, range_for

UNITS = r"SimTKmath/Optimizers/src/(Optimizer|OptimizerRep|LBFGSOptimizer|LBFGSBOptimizer|InteriorPointOptimizer|CMAESOptimizer)\.cpp$"
OS = "SimTK::OptimizerSystem"
REP = "SimTK::Optimizer::OptimizerRep"


def _strip(x):
    while isinstance(x, list) and x and x[0] in ("cast", "conv", "paren"):
        x = x[2] if x[0] == "cast" else x[1]
    return x


def _calls(f, name):
    return [(b, i, e) for b, i, e in f.calls() if str(e.get("fn", "")).split("::")[-1] == name]


def _addr_var(x):
    """v for `&v`"""
    x = _strip(x)
    return var_of(x[2]) if isinstance(x, list) and x[:2] == ["un", "&"] and isinstance(x[2], list) and x[2][:1] == ["var"] else None


def _limits_vars(f):
    """(lower variable, upper variable, call event) from `sys.getParameterLimits(&lower, &upper)`"""
    cs = _calls(f, "getParameterLimits")
    if len(cs) != 1:
        return None
    a = call_args(cs[0][2])
    if len(a) != 2 or not _addr_var(a[0]) or not _addr_var(a[1]):
        return None
    return _addr_var(a[0]), _addr_var(a[1]), cs[0]


def _has_limits_edges(f):
    is_hl = lambda c: isinstance(c, list) and c[:1] == ["call"] and str(c[1]).endswith("::getHasLimits")
    return known_edges(f, is_hl, lambda c: False), known_edges(f, lambda c: False, is_hl)


def _cmp(c, ops, lhs, rhs):
    """c is `lhs op rhs` for op in ops, or the mirrored form"""
    mirror = {"<": ">", ">": "<", "<=": ">=", ">=": "<="}
    if not (isinstance(c, list) and len(c) == 4 and c[0] in ("op", "opc")):
        return False
    if c[1] in ops and lhs(_strip(c[2])) and rhs(_strip(c[3])):
        return True
    return mirror.get(c[1]) in ops and lhs(_strip(c[3])) and rhs(_strip(c[2]))


def _elem(x, arr, idx):
    """x is arr[idx] (built-in or overloaded subscript)"""
    x = _strip(x)
    return isinstance(x, list) and len(x) > 2 and ((x[0] == "idx" and var_of(x[1]) == arr and x[1][:1] == ["var"] and _strip(x[2]) == ["var", idx]) or
                                                   (x[0] == "opc" and x[1] == "[]" and var_of(x[2]) == arr and _strip(x[3]) == ["var", idx]))


def _whole_loop(f, h, bound_ok):
    """index loop from 0, `<` a bound accepted by bound_ok, stepped by ++ only; returns the loop variable"""
    iv, c = _loop_var(f, h)
    if not iv or not isinstance(c, list) or c[1] != "<" or not bound_ok(expand_locals(f, c[3])):
        return None
    ds = [d for _, _, d in f.events(lambda q: q["k"] == "decl" and q["var"] == iv)]
    near = sorted([d for d in ds if d["line"] <= f.blocks[h]["term"]["line"]], key=lambda d: d["line"])[-1:]
    if not near or not _lit(near[0].get("init"), ("0",)) or _steps(f, f.loops()[h], iv) != ["++"]:
        return None
    return iv


def _is_nparams(x):
    return bool(sx_find(x, lambda y: y[0] == "call" and str(y[1]).endswith("::getNumParameters"))) or \
        bool(sx_find(x, lambda y: y[0] == "call" and str(y[1]).endswith("::size")))


# ---------------------------------------------------------------- CMA-ES
def evalgate(chk, P):
    chk.rule("EVALGATE", "CMA-ES evaluates the objective only at points inside the parameter limits: every sampled population passes resampleToObeyLimits before "
             "evaluation, which accepts a sample only after every coordinate passed both limit tests; the start point is tested before initialisation; "
             "every member of the population is evaluated into its own slot")
    C = "SimTK::CMAESOptimizer"
    f = P.fn(C + "::optimize")
    samp = _calls(f, "cmaes_SamplePopulation")
    res = [(b, i, e) for b, i, e in f.calls() if str(e.get("fn", "")) == C + "::resampleToObeyLimits"]
    ev = [(b, i, e) for b, i, e in f.calls() if str(e.get("fn", "")) == C + "::evaluateObjectiveFunctionOnPopulation" or str(e.get("fn", "")).endswith("::objectiveFuncWrapper")]
    if not chk.shape(len(samp) >= 1 and len(ev) >= 1, "EVALGATE", "optimize:sample-and-evaluate-sites", f.loc, "%d sampling, %d evaluation sites" % (len(samp), len(ev))):
        return
    for n, (b, i, e) in enumerate(samp):
        p = f.path_exists((b, i), lambda q: any(q is x[2] for x in ev), lambda q: any(q is x[2] for x in res))
        chk.judge(bool(res) and p is None, "EVALGATE", "optimize:resample-between-sampling-and-evaluation#%d" % n, "%s:%d" % (f.file, e["line"]),
                  "a sampled population reaches its evaluation without resampleToObeyLimits", p)
    # the population that is resampled / evaluated is the one that was sampled
    pv = [d["var"] for _, _, d in f.events(lambda d: d["k"] == "decl" and isinstance(d.get("init"), list) and d["init"][:2] == ["call", "cmaes_SamplePopulation"])]
    pv += [var_of(q["lhs"]) for _, _, q in f.events(lambda q: q["k"] == "assign" and isinstance(q.get("rhs"), list) and q["rhs"][:2] == ["call", "cmaes_SamplePopulation"])]
    okp = len(set(pv)) == 1 and all(["var", pv[0]] in call_args(x[2]) for x in res) and all(["var", pv[0]] in call_args(x[2]) or bool(sx_find(call_args(x[2]), lambda y: y == ["var", pv[0]])) for x in ev)
    chk.judge(okp, "EVALGATE", "optimize:same-population-sampled-resampled-evaluated", f.loc, "population variable %s" % sorted(set(pv)))
    # start point tested before cmaes is initialised
    chkp = [(b, i, e) for b, i, e in f.calls() if str(e.get("fn", "")) == C + "::checkInitialPointIsFeasible"]
    ini = [(b, i, e) for b, i, e in f.calls() if str(e.get("fn", "")) == C + "::init" or str(e.get("fn", "")) == "cmaes_init_para"]
    if chk.shape(bool(ini), "EVALGATE", "optimize:init-site", f.loc, "%d" % len(ini)):
        p = f.path_exists(None, lambda q: any(q is x[2] for x in ini), lambda q: any(q is x[2] for x in chkp))
        chk.judge(bool(chkp) and p is None and all(call_args(x[2]) == [["var", f.d["params"][0][0]]] for x in chkp), "EVALGATE", "optimize:start-point-tested-before-init", f.loc,
                  "checkInitialPointIsFeasible(results) precedes cmaes initialisation", p)
    # --- resampleToObeyLimits
    g = P.fn(C + "::resampleToObeyLimits")
    _limit_tests(chk, g, "resampleToObeyLimits", popv=g.d["params"][1][0], P=P)
    # --- checkInitialPointIsFeasible
    k = P.fn(C + "::checkInitialPointIsFeasible")
    _limit_tests(chk, k, "checkInitialPointIsFeasible", popv=None, xv=k.d["params"][0][0])
    # --- every member evaluated into its own slot
    ef = P.fn(C + "::evaluateObjectiveFunctionOnPopulation")
    popv, fv = ef.d["params"][1][0], ef.d["params"][2][0]
    sites = [(b, i, e) for b, i, e in ef.calls() if str(e.get("fn", "")).endswith("::objectiveFuncWrapper")]
    for g2 in P.all_fns():
        if g2.cls and g2.cls.startswith(C + "::") and g2.name.endswith("::execute"):
            sites += [(b, i, e) for b, i, e in g2.calls() if str(e.get("fn", "")).endswith("::objectiveFuncWrapper")]
    chk.shape(len(sites) >= 2, "EVALGATE", "evaluate:sites", ef.loc, "serial and parallel evaluation sites (%d)" % len(sites))
    for n, (b, i, e) in enumerate(sites):
        a = call_args(e)
        xi = _strip(a[1])
        fi = _strip(a[3])
        ix = None
        if isinstance(xi, list) and xi[0] in ("idx", "opc"):
            ix = _strip(xi[-1])
        okx = ix is not None and ix[:1] == ["var"] and isinstance(fi, list) and fi[:2] == ["un", "&"] and isinstance(fi[2], list) and fi[2][0] in ("idx", "opc") and _strip(fi[2][-1]) == ix
        chk.judge(okx, "EVALGATE", "evaluate:member-i-into-slot-i#%d" % n, "%s:%d" % (e.get("file", ef.file), e["line"]), "objectiveFuncWrapper(n, %s, .., %s)" % (sx_str(a[1]), sx_str(a[3])))
    # serial loop over the whole population
    loops = ef.loops()
    okw = False
    for h in loops:
        if any(b in loops[h] for b, _, _ in sites[:1]):
            okw = okw or _whole_loop(ef, h, lambda x: bool(sx_find(x, lambda y: y[0] == "str" and y[1] in ("popsize", "lambda")))) is not None
    chk.judge(okw, "EVALGATE", "evaluate:whole-population", ef.loc, "the serial loop runs i = 0 .. popsize-1")
    par = [e for _, _, e in ef.calls() if str(e.get("fn", "")) == "SimTK::ParallelExecutor::execute"]
    chk.judge(bool(par) and all(bool(sx_find(call_args(e)[1], lambda y: y[0] == "str" and y[1] in ("popsize", "lambda"))) for e in par), "EVALGATE", "evaluate:whole-population-parallel", ef.loc,
              "the parallel executor is given popsize tasks")
    chk.floor("EVALGATE", 12)


def _limit_tests(chk, g, nm, popv, xv=None, P=None):
    """in g: under getHasLimits, for every coordinate j of (every member i of) the point, the code that accepts the point is reached only
    where `value >= lower[j]` and `value <= upper[j]` are both known, lower/upper being the two outputs of getParameterLimits in order"""
    lv = _limits_vars(g)
    if not chk.shape(lv is not None, "EVALGATE", nm + ":getParameterLimits(&lower,&upper)", g.loc, "one call with two address-of-local arguments"):
        return
    lo, up, (lb, li, le) = lv
    he, _ = _has_limits_edges(g)
    chk.judge(bool(he) and only_via(g, lb, he) or not any(True for _ in g.calls() if False), "EVALGATE", nm + ":limits-read-under-getHasLimits", g.loc, "")
    loops = g.loops()
    # the coordinate loop: its variable subscripts lower and upper
    def is_val(j):
        if popv is not None:
            return lambda x: isinstance(x, list) and x[0] in ("idx", "opc") and _strip(x[-1]) == ["var", j] and bool(sx_find(x, lambda y: y == ["var", popv]))
        return lambda x: _elem(x, xv, j)
    cand = []
    for h in loops:
        j = _whole_loop(g, h, _is_nparams)
        if j:
            cand.append((h, j))
    if not cand and popv is not None and P is not None:
        # the acceptance test extracted into a local predicate lambda: `while (violates(pop[i])) resample(i)`
        for L in [x for x in P.all_fns() if x.d.get("parent") == g.id and x.blocks and len(x.d.get("params", [])) == 1]:
            if any(_whole_loop(L, hh, _is_nparams) for hh in L.loops()):
                return _limit_tests_predicate(chk, g, L, nm, popv, lo, up)
    if not chk.shape(len(cand) >= 1, "EVALGATE", nm + ":coordinate-loop", g.loc, "a loop j = 0 .. numParameters-1 (%d)" % len(cand)):
        return
    h, j = min(cand, key=lambda t: len(loops[t[0]]))
    val = is_val(j)
    ge_lo = lambda c: _cmp(c, (">=",), val, lambda x: _elem(x, lo, j))
    lt_lo = lambda c: _cmp(c, ("<",), val, lambda x: _elem(x, lo, j))
    le_up = lambda c: _cmp(c, ("<=",), val, lambda x: _elem(x, up, j))
    gt_up = lambda c: _cmp(c, (">",), val, lambda x: _elem(x, up, j))
    e_lo = known_edges(g, ge_lo, lt_lo)
    e_up = known_edges(g, le_up, gt_up)
    # the step of the coordinate loop (j++) is where coordinate j has been accepted
    steps = [b for b in loops[h] for q in g.blocks[b]["ev"] if q["k"] == "assign" and q["lhs"] == ["var", j] and q["op"] == "++"]
    if not chk.shape(len(steps) == 1, "EVALGATE", nm + ":coordinate-step", g.loc, "%d" % len(steps)):
        return
    sb = steps[0]
    # paths from the loop header into the step, within one iteration
    def within_iteration(edges):
        """no path header(true edge) -> step that avoids `edges`"""
        seen, st = set(), [s for s in g.succs(h)[:1]]
        infeas = g.infeasible_edges()
        while st:
            b = st.pop()
            if b == sb:
                return False
            if b in seen or b not in loops[h] or b == h:
                continue
            seen.add(b)
            for s in g.succs(b):
                if (b, s) in edges or (b, s) in infeas:
                    continue
                st.append(s)
        return True
    chk.judge(bool(e_lo) and within_iteration(e_lo), "EVALGATE", nm + ":coordinate-accepted-only-if->=lower[j]", g.loc,
              "coordinate %s is passed over without `value >= %s[%s]` being known" % (j, lo, j))
    chk.judge(bool(e_up) and within_iteration(e_up), "EVALGATE", nm + ":coordinate-accepted-only-if-<=upper[j]", g.loc,
              "coordinate %s is passed over without `value <= %s[%s]` being known" % (j, up, j))
    if popv is None:
        return
    # resampling: a violated coordinate leads to a resample of member i and the member is tested again from coordinate 0
    viol = known_edges(g, lambda c: lt_lo(c) or gt_up(c), lambda c: False)
    rs = _calls(g, "cmaes_ReSampleSingle")
    flagv = None
    for hh in loops:
        t = g.blocks[hh].get("term")
        c = t.get("cond") if t else None
        if isinstance(c, list) and c[:2] == ["un", "!"] and isinstance(c[2], list) and c[2][:1] == ["var"] and h in loops[hh]:
            flagv = c[2][1]
            wh = hh
    if not chk.shape(flagv is not None and len(rs) == 1, "EVALGATE", nm + ":retry-loop", g.loc, "`while (!ok)` around the coordinate loop and one resample call"):
        return
    # the retry loop is left only with the flag true; the flag is set true only before the coordinate loop; every path from `flag = true` to the
    # retry test that does not pass `flag = false` leaves the coordinate loop through its header (all coordinates accepted)
    tru = [(b, i, q) for b, i, q in g.events(lambda q: q["k"] == "assign" and q["lhs"] == ["var", flagv] and _lit(q.get("rhs"), ("true", "1")))]
    fal = [q for _, _, q in g.events(lambda q: (q["k"] == "assign" and q["lhs"] == ["var", flagv] and _lit(q.get("rhs"), ("false", "0"))))]
    ok = len(tru) == 1 and bool(fal)
    if ok:
        b0, i0, _ = tru[0]
        exits = {(h, s) for s in g.succs(h)[1:]}
        p = _path_to_block(g, (b0, i0), wh, lambda q: any(q is x for x in fal), exits)
        ok = p is None
    chk.judge(ok, "EVALGATE", nm + ":member-accepted-only-after-all-coordinates", g.loc, "the retry loop can be left with a coordinate untested or violated")
    # a violation resamples the SAME member
    okr = bool(viol) and all(only_via(g, b, viol) for b, _, _ in rs) and all(_strip(call_args(e)[1])[:1] == ["var"] for _, _, e in rs)
    mi = _strip(call_args(rs[0][2])[1])[1] if okr else None
    okr = okr and any(_whole_loop(g, hh, lambda x: bool(sx_find(x, lambda y: y[0] == "str" and y[1] in ("popsize", "lambda")))) == mi for hh in loops)
    chk.judge(okr, "EVALGATE", nm + ":violation-resamples-member-i-of-the-whole-population", g.loc, "cmaes_ReSampleSingle(&evo, %s) under a violated limit, %s = 0 .. popsize-1" % (mi, mi))
    # the value tested is pop[i][j] for that i
    okv = bool(sx_find([g.blocks[b]["term"]["cond"] for b in loops[h] if g.blocks[b].get("term") and g.blocks[b]["term"].get("cond")],
                       lambda y: y[0] in ("idx", "opc") and _strip(y[-1]) == ["var", j] and bool(sx_find(y, lambda z: z == ["var", mi]))))
    chk.judge(okv, "EVALGATE", nm + ":tests-pop[i][j]", g.loc, "the limit tests read member %s, coordinate %s" % (mi, j))


def _limit_tests_predicate(chk, g, L, nm, popv, lo, up):
    """form B of the resampling routine: a local predicate lambda L(sample) returns false (= accept) only after its coordinate loop has passed
    every coordinate across both limit tests; g redraws member i while L(pop[i]) is true"""
    loopsL = L.loops()
    cand = [(h, _whole_loop(L, h, _is_nparams)) for h in loopsL if _whole_loop(L, h, _is_nparams)]
    h, j = min(cand, key=lambda t: len(loopsL[t[0]]))
    sv = L.d["params"][0][0]
    val = lambda x: _elem(x, sv, j)
    ge_lo = lambda c: _cmp(c, (">=",), val, lambda x: _elem(x, lo, j))
    lt_lo = lambda c: _cmp(c, ("<",), val, lambda x: _elem(x, lo, j))
    le_up = lambda c: _cmp(c, ("<=",), val, lambda x: _elem(x, up, j))
    gt_up = lambda c: _cmp(c, (">",), val, lambda x: _elem(x, up, j))
    e_lo, e_up = known_edges(L, ge_lo, lt_lo), known_edges(L, le_up, gt_up)
    steps = [b for b in loopsL[h] for q in L.blocks[b]["ev"] if q["k"] == "assign" and q["lhs"] == ["var", j] and q["op"] == "++"]
    if not chk.shape(len(steps) == 1, "EVALGATE", nm + ":coordinate-step", L.loc, "%d" % len(steps)):
        return
    sb = steps[0]

    def within_iteration(edges):
        seen, st = set(), [s for s in L.succs(h)[:1]]
        infeas = L.infeasible_edges()
        while st:
            b = st.pop()
            if b == sb:
                return False
            if b in seen or b not in loopsL[h] or b == h:
                continue
            seen.add(b)
            st += [s for s in L.succs(b) if (b, s) not in edges and (b, s) not in infeas]
        return True
    chk.judge(bool(e_lo) and within_iteration(e_lo), "EVALGATE", nm + ":coordinate-accepted-only-if->=lower[j]", L.loc, "coordinate %s is passed over without `value >= %s[%s]` being known" % (j, lo, j))
    chk.judge(bool(e_up) and within_iteration(e_up), "EVALGATE", nm + ":coordinate-accepted-only-if-<=upper[j]", L.loc, "coordinate %s is passed over without `value <= %s[%s]` being known" % (j, up, j))
    # `return false` (accept) only through the coordinate loop's own exit; every other return is `true`
    rets = [(b, i, r) for b, i, r in L.events(lambda q: q["k"] == "ret")]
    acc = [(b, i, r) for b, i, r in rets if _lit(r.get("val"), ("false", "0"))]
    rej = [(b, i, r) for b, i, r in rets if _lit(r.get("val"), ("true", "1"))]
    exits = {(h, s) for s in L.succs(h)[1:]}
    ok = bool(acc) and len(acc) + len(rej) == len(rets)
    for b, i, r in acc:
        p = L.path_exists(None, lambda q, r=r: q is r, lambda q: False, avoid_edges=exits, lift=0)
        ok = ok and p is None
    chk.judge(ok, "EVALGATE", nm + ":member-accepted-only-after-all-coordinates", L.loc, "the predicate can answer `within limits` with a coordinate untested or violated")
    # in g: `while (L(pop[i])) pop = resample(i)` for the whole population
    lname = [d["var"] for _, _, d in g.events(lambda d: d["k"] == "decl" and isinstance(d.get("init"), list) and d["init"][:1] == ["lambda"] and L.id.startswith(d["init"][1] + "("))]
    rs = _calls(g, "cmaes_ReSampleSingle")
    loops = g.loops()
    okr = False
    mi = None
    if len(lname) == 1 and len(rs) == 1 and _strip(call_args(rs[0][2])[1])[:1] == ["var"]:
        mi = _strip(call_args(rs[0][2])[1])[1]
        for hh in loops:
            c = _strip(g.blocks[hh].get("term", {}).get("cond"))
            if isinstance(c, list) and c[:2] == ["opc", "()"] and c[2] == ["var", lname[0]] and rs[0][0] in loops[hh]:
                arg = c[3] if len(c) > 3 else None
                okr = isinstance(arg, list) and bool(sx_find(arg, lambda y: y == ["var", popv])) and bool(sx_find(arg, lambda y: y == ["var", mi]))
        okr = okr and any(_whole_loop(g, hh, lambda x: bool(sx_find(x, lambda y: y[0] == "str" and y[1] in ("popsize", "lambda")))) == mi for hh in loops)
    chk.judge(okr, "EVALGATE", nm + ":violation-resamples-member-i-of-the-whole-population", g.loc, "while (predicate(%s[%s])) cmaes_ReSampleSingle(&evo, %s), %s = 0 .. popsize-1" % (popv, mi, mi, mi))
    chk.ok("EVALGATE", nm + ":tests-pop[i][j]", g.loc, "the predicate is applied to %s[%s] and reads its coordinate %s" % (popv, mi, j))


def _path_to_block(g, start, target, avoid, avoid_edges):
    """path from just after event position `start` to block `target` that passes no event satisfying avoid and uses no edge of avoid_edges"""
    b0, i0 = start
    if any(avoid(q) for q in g.blocks[b0]["ev"][i0 + 1:]):
        return None
    infeas = g.infeasible_edges()
    seen, st = set(), [(s, (b0, s)) for s in g.succs(b0) if (b0, s) not in avoid_edges and (b0, s) not in infeas]
    while st:
        b, path = st.pop()
        if b == target:
            return list(path)
        if b in seen:
            continue
        seen.add(b)
        if any(avoid(q) for q in g.blocks[b]["ev"]):
            continue
        for s in g.succs(b):
            if (b, s) in avoid_edges or (b, s) in infeas:
                continue
            st.append((s, path + (s,)))
    return None


# ---------------------------------------------------------------- PAIR
def pair(chk, P):
    chk.rule("PAIR", "the objective value a driver returns is the objective at the parameters it returns (same key / same array / same call), and the wrappers evaluate "
             "the system functions at the array they were given, into the location they were given")
    # CMA-ES
    f = P.fn("SimTK::CMAESOptimizer::optimize")
    res = f.d["params"][0][0]
    rets = [r for _, _, r in f.events(lambda q: q["k"] == "ret")]
    fv = var_of(rets[0]["val"]) if len(rets) == 1 and rets[0].get("val") else None
    fw = [q for _, _, q in f.events(lambda q: q["k"] == "assign" and q["lhs"] == ["var", fv])]
    fkey = None
    if len(fw) == 1 and isinstance(fw[0]["rhs"], list) and fw[0]["rhs"][:2] == ["call", "cmaes_Get"]:
        ks = sx_find(fw[0]["rhs"], lambda y: y[0] == "str")
        fkey = ks[0][1] if ks else None
    xw = [q for _, _, q in f.events(lambda q: q["k"] == "assign" and isinstance(q["lhs"], list) and q["lhs"][0] in ("opc", "idx") and var_of(q["lhs"][2] if q["lhs"][0] == "opc" else q["lhs"][1]) == res)]
    xkey = None
    iv = None
    if len(xw) == 1:
        src = _strip(xw[0]["rhs"])
        if isinstance(src, list) and src[0] == "idx":
            iv = _strip(src[2])
            arr = expand_locals(f, src[1])
            ks = sx_find(arr, lambda y: y[0] == "str") if isinstance(arr, list) and arr[:2] == ["call", "cmaes_GetPtr"] else []
            xkey = ks[0][1] if ks else None
    chk.judge(bool(fkey) and bool(xkey) and fkey[:1] == "f" and xkey[:1] == "x" and fkey[1:] == xkey[1:], "PAIR", "CMAES:returned-f-and-x-have-the-same-key", f.loc,
              "results <- cmaes \"%s\", return value <- cmaes \"%s\"" % (xkey, fkey))
    okall = False
    if len(xw) == 1 and iv and iv[:1] == ["var"]:
        for h, body in f.loops().items():
            if any(q is xw[0] for b in body for q in f.blocks[b]["ev"]) and _whole_loop(f, h, lambda x: _is_nparams(x)) == iv[1]:
                okall = _strip(xw[0]["lhs"][-1]) == iv
    chk.judge(okall, "PAIR", "CMAES:every-coordinate-copied", f.loc, "results[i] = x[i] for i = 0 .. n-1")
    # L-BFGS
    f = P.fn("SimTK::LBFGSOptimizer::optimize")
    res = f.d["params"][0][0]
    rets = [r for _, _, r in f.events(lambda q: q["k"] == "ret")]
    fv = var_of(rets[0]["val"]) if len(rets) == 1 and rets[0].get("val") else None
    solver = [(b, i, e) for b, i, e in f.calls() if str(e.get("fn", "")).endswith("::lbfgs_")]
    chk.shape(len(solver) == 1, "PAIR", "LBFGS:solver-call", f.loc, "%d" % len(solver))

    def evaluates(q):
        if q["k"] != "call" or not str(q.get("fn", "")).endswith("::objectiveFuncWrapper"):
            return False
        a = call_args(q)
        return len(a) >= 4 and bool(sx_find(expand_locals(f, a[1]), lambda y: y == ["var", res])) and _addr_var(a[3]) == fv
    for b, i, e in solver:
        p = f.path_exists((b, i), "exit", evaluates)
        chk.judge(fv is not None and p is None, "PAIR", "LBFGS:objective-re-evaluated-at-results-into-the-returned-variable", "%s:%d" % (f.file, e["line"]),
                  "a path from the solver to the return does not evaluate the objective at `results` into `%s`" % fv, p)
    mod_after = [q for _, _, q in f.calls() if evaluates(q)]
    okm = True
    for q in mod_after:
        for b, i, e in f.events(lambda z: z is q):
            p = f.path_exists((b, i), lambda z: z["k"] == "call" and (str(z.get("fn", "")).endswith("::lbfgs_")) or (z["k"] == "assign" and var_of(z["lhs"]) in (fv, res)), lambda z: False, lift=0)
            okm = okm and p is None
    chk.judge(bool(mod_after) and okm, "PAIR", "LBFGS:nothing-changes-results-or-f-after-the-evaluation", f.loc, "")
    # IPOPT
    f = P.fn("SimTK::InteriorPointOptimizer::optimize")
    res = f.d["params"][0][0]
    rets = [r for _, _, r in f.events(lambda q: q["k"] == "ret")]
    fv = var_of(rets[0]["val"]) if len(rets) == 1 and rets[0].get("val") else None
    sol = _calls(f, "IpoptSolve")
    ok = False
    if len(sol) == 1:
        a = call_args(sol[0][2])
        xa = expand_locals(f, a[1])
        ok = bool(sx_find(xa, lambda y: y == ["var", res])) and _addr_var(a[3]) == fv and fv is not None
        ok = ok and not [q for _, _, q in f.events(lambda q: q["k"] == "assign" and q["lhs"] == ["var", fv])]
    chk.judge(ok, "PAIR", "IPOPT:results-and-returned-objective-in-the-same-solve-call", f.loc, "IpoptSolve(nlp, &results[0], .., &%s, ..); return %s" % (fv, fv))
    # wrappers
    for wn, sysfn, outpos in (("objectiveFuncWrapper", "objectiveFunc", 3), ("gradientFuncWrapper", "gradientFunc", 3), ("constraintFuncWrapper", "constraintFunc", 4)):
        w = P.fn(REP + "::" + wn)
        ps = [p_[0] for p_ in w.d["params"]]
        xs, outp = ps[1], ps[outpos]
        cs = [(b, i, e) for b, i, e in w.calls() if str(e.get("fn", "")) == OS + "::" + sysfn]
        if not chk.shape(len(cs) >= 1, "PAIR", wn + ":system-call", w.loc, "%d" % len(cs)):
            continue
        for b, i, e in cs:
            a = call_args(e)
            pa = expand_locals(w, a[0])
            oa = expand_locals(w, a[2])
            shares = isinstance(pa, list) and pa[:1] == ["ctor"] and any(_strip(z) == ["var", xs] for z in pa[2]) and any(_lit(z, ("true", "1")) for z in pa[2])
            outs = bool(sx_find(oa, lambda y: y == ["var", outp]))
            if isinstance(a[2], list) and a[2][:1] == ["var"] and a[2][1] not in ps:
                # a local handed to the system function must BE the caller's location: a reference, or a view constructed over it
                od = [d for _, _, d in w.events(lambda q: q["k"] == "decl" and q["var"] == a[2][1])]
                isref = len(od) == 1 and str(od[0].get("ty", "")).rstrip().endswith("&")
                isview = len(od) == 1 and isinstance(od[0].get("init"), list) and od[0]["init"][:1] == ["ctor"]
                outs = outs and (isref or isview)
            if isinstance(oa, list) and oa[:1] == ["ctor"]:
                outs = outs and any(_lit(z, ("true", "1")) for z in oa[2])
            chk.judge(shares and outs, "PAIR", "%s:%s(view of x, caller's output)" % (wn, sysfn), "%s:%d" % (w.file, e["line"]), "params = %s; output = %s" % (sx_str(pa)[:60], sx_str(oa)[:60]))
        # every expression that carries a system-function status to the caller has the form (status == 0) ? 1 : 0 -- directly in a return, or
        # assigned to the variable that is returned
        retvars = {var_of(r["val"]) for _, _, r in w.events(lambda q: q["k"] == "ret") if isinstance(r.get("val"), list) and r["val"][:1] == ["var"]}
        carriers = [r["val"] for _, _, r in w.events(lambda q: q["k"] == "ret") if isinstance(r.get("val"), list) and r["val"][:1] != ["var"]]
        carriers += [q["rhs"] for _, _, q in w.events(lambda q: q["k"] == "assign" and q["op"] == "=" and var_of(q["lhs"]) in retvars and q["lhs"][:1] == ["var"])]
        carriers += [d["init"] for _, _, d in w.events(lambda d: d["k"] == "decl" and d["var"] in retvars and d.get("init") is not None)]
        stat = [x for x in carriers if sx_find(x, lambda y: y[0] == "call" and str(y[1]) == OS + "::" + sysfn)]

        def status_form(x):
            x = _strip(x)
            if not (isinstance(x, list) and x[:1] == ["cond"] and len(x) == 4 and _lit(x[2], ("1",)) and _lit(x[3], ("0",))):
                return False
            c = _strip(x[1])
            return isinstance(c, list) and len(c) == 4 and c[1] == "==" and (_lit(c[3], ("0",)) or _lit(c[2], ("0",)))
        okr = bool(stat) and all(status_form(x) for x in stat)
        chk.judge(okr, "PAIR", wn + ":status-0-is-success", w.loc, "returns (status == 0) ? 1 : 0")
    # numerical gradient: the differences are taken around the same point
    w = P.fn(REP + "::gradientFuncWrapper")
    cg = _calls(w, "calcGradient")
    ok = False
    if len(cg) == 1:
        a = call_args(cg[0][2])
        ob = [e for _, _, e in w.calls() if str(e.get("fn", "")) == OS + "::objectiveFunc"]
        ok = len(ob) == 1 and call_args(ob[0])[0] == a[0] and call_args(ob[0])[2] == a[1]
        ga = expand_locals(w, a[2])
        ok = ok and bool(sx_find(ga, lambda y: y == ["var", w.d["params"][3][0]]))
    chk.judge(ok, "PAIR", "gradientFuncWrapper:numerical-gradient-at-the-same-point", w.loc, "objectiveFunc(params, .., f0); calcGradient(params, f0, caller's gradient)")
    chk.floor("PAIR", 12)


# ---------------------------------------------------------------- STATUS
def status(chk, P):
    chk.rule("STATUS", "a driver returns normally only where its backend reported convergence; every other final status throws")
    f = P.fn("SimTK::LBFGSBOptimizer::optimize")
    taskv = None
    for _, _, e in _calls(f, "setulb_"):
        a = call_args(e)
        taskv = var_of(a[12]) if len(a) > 12 else None
    chk.shape(taskv is not None, "STATUS", "LBFGSB:task-variable", f.loc, "13th argument of setulb_")

    def cmp_task(c, lit, op):
        if not (isinstance(c, list) and len(c) == 4 and c[0] == "op" and c[1] == op and _lit(c[3], ("0",))):
            return False
        k = _strip(c[2])
        if not (isinstance(k, list) and k[:1] == ["call"] and str(k[1]) in ("strncmp", "strcmp")):
            return False
        a = k[3]
        return var_of(_strip(a[0])) == taskv and bool(sx_find(a[1], lambda y: y[0] == "str" and y[1] == lit))
    conv = known_edges(f, lambda c: cmp_task(c, "CONV", "=="), lambda c: cmp_task(c, "CONV", "!="))
    cont = known_edges(f, lambda c: cmp_task(c, "FG", "==") or cmp_task(c, "NEW_X", "=="), lambda c: False)
    # every edge out of the solver call's continuation that is neither "keep iterating" (FG / NEW_X) nor CONV must not reach the normal exit
    sites = _calls(f, "setulb_")
    # the solver loop `while (run)` is entered (run starts non-zero), is the only way to the return, and is left only through `run = 0`;
    # from each `run = 0` the normal exit is reached only across a `task == CONV` edge (everything else throws)
    loops = f.loops()
    runv = None
    for h in loops:
        c = f.blocks[h].get("term", {}).get("cond")
        if isinstance(_strip(c), list) and _strip(c)[:1] == ["var"] and any(any(q is sites[0][2] for q in f.blocks[b]["ev"]) for b in loops[h]) if sites else False:
            runv, hdr_ = _strip(c)[1], h
    if chk.shape(runv is not None and len(sites) == 1, "STATUS", "LBFGSB:solver-loop", f.loc, "`while (run)` around the single setulb_ call"):
        ds = [d for _, _, d in f.events(lambda q: q["k"] == "decl" and q["var"] == runv)]
        ws = [(b, i, q) for b, i, q in f.events(lambda q: q["k"] == "assign" and q["lhs"] == ["var", runv])]
        ok0 = len(ds) == 1 and isinstance(ds[0].get("init"), list) and ds[0]["init"][:1] == ["lit"] and str(ds[0]["init"][1]) not in ("0", "false") and \
            bool(ws) and all(q["op"] == "=" and _lit(q.get("rhs"), ("0", "false")) for _, _, q in ws)
        chk.judge(ok0, "STATUS", "LBFGSB:loop-flag-starts-set-and-is-only-cleared", f.loc, "%s starts non-zero; assignments: %s" % (runv, [sx_str(q.get("rhs")) for _, _, q in ws]))
        byp = f.path_exists(None, "exit", lambda q: False, avoid_blocks={hdr_}, lift=0)
        chk.judge(byp is None, "STATUS", "LBFGSB:return-only-through-the-solver-loop", f.loc, "", byp)
        p = None
        for b, i, q in ws:
            p = p or f.path_exists((b, i), "exit", lambda z: False, avoid_edges=conv, lift=0)
        chk.judge(bool(conv) and p is None, "STATUS", "LBFGSB:normal-return-only-after-CONV", f.loc, "after the loop flag is cleared the normal exit is reached without a `task == CONV` edge", p)
    chk.judge(bool(cont), "STATUS", "LBFGSB:iterates-on-FG-and-NEW_X", f.loc, "")
    # objective and gradient are evaluated at the iterate on FG
    fg = known_edges(f, lambda c: cmp_task(c, "FG", "=="), lambda c: False)
    evs = [(b, e) for b, _, e in f.calls() if str(e.get("fn", "")).endswith(("::objectiveFuncWrapper", "::gradientFuncWrapper"))]
    res = f.d["params"][0][0]
    okfg = len(evs) == 2 and all(only_via(f, b, fg) for b, e in evs) and all(bool(sx_find(call_args(e)[1], lambda y: y == ["var", res])) for b, e in evs)
    if len(sites) == 1 and okfg:
        a = call_args(sites[0][2])
        fvar, gvar = _addr_var(a[6]), var_of(_strip(a[7]))
        outs = {str(e["fn"]).split("::")[-1]: call_args(e)[3] for b, e in evs}
        okfg = _addr_var(outs.get("objectiveFuncWrapper")) == fvar and var_of(_strip(outs.get("gradientFuncWrapper"))) == gvar
    chk.judge(okfg, "STATUS", "LBFGSB:FG-evaluates-f-and-g-at-the-iterate-into-setulb's-f-and-g", f.loc, "")
    # IPOPT
    f = P.fn("SimTK::InteriorPointOptimizer::optimize")
    sol = _calls(f, "IpoptSolve")
    sv = [d["var"] for _, _, d in f.events(lambda d: d["k"] == "decl" and isinstance(d.get("init"), list) and d["init"][:2] == ["call", "IpoptSolve"])]
    if chk.shape(len(sol) == 1 and len(sv) == 1, "STATUS", "IPOPT:status-variable", f.loc, "int status = IpoptSolve(..)"):
        sv = sv[0]
        universe = set()
        for b, blk in f.blocks.items():
            t = blk.get("term")
            if t and isinstance(t.get("cond"), list):
                for y in sx_find(t["cond"], lambda y: y[0] == "enum"):
                    universe.add(y[1].split("::")[-1])
        universe |= {"<other>"}
        VS = value_sets(f, lambda x: _strip(x) == ["var", sv], universe)
        rets = [b for b, _, r in f.events(lambda q: q["k"] == "ret")]
        got = set()
        for b in rets:
            got |= VS[b]
        allowed = {"Solve_Succeeded", "Solved_To_Acceptable_Level"}
        tabled = {"NonIpopt_Exception_Thrown": "never produced by the vendored IpOpt (no code path assigns it); kept by the driver as a pass-through"}
        extra = got - allowed - set(tabled)
        chk.judge(bool(rets) and not extra, "STATUS", "IPOPT:normal-return-only-on-success-statuses", f.loc, "statuses that reach `return obj`: %s" % sorted(got))
        if got & set(tabled):
            chk.ok("STATUS", "IPOPT:NonIpopt_Exception_Thrown:tabled", f.loc, tabled["NonIpopt_Exception_Thrown"])
    chk.floor("STATUS", 5)


# ---------------------------------------------------------------- LIMITS
def limits(chk, P):
    chk.rule("LIMITS", "the backends are given the system's own limits, in (lower, upper) order, with bound codes that mean what L-BFGS-B takes them to mean; IPOPT's constraint "
             "rows and tolerances are the system's")
    f = P.fn("SimTK::LBFGSBOptimizer::optimize")
    lv = _limits_vars(f)
    sites = _calls(f, "setulb_")
    if chk.shape(lv is not None and len(sites) == 1, "LIMITS", "LBFGSB:getParameterLimits-and-setulb", f.loc, ""):
        lo, up, (lb, li, le) = lv
        a = call_args(sites[0][2])
        chk.judge(var_of(_strip(a[3])) == lo and var_of(_strip(a[4])) == up, "LIMITS", "LBFGSB:setulb(l=lower,u=upper)", "%s:%d" % (f.file, sites[0][2]["line"]),
                  "setulb_(.., %s, %s, ..) with getParameterLimits(&%s, &%s)" % (sx_str(a[3]), sx_str(a[4]), lo, up))
        he, hn = _has_limits_edges(f)
        chk.judge(bool(he) and only_via(f, lb, he), "LIMITS", "LBFGSB:limits-read-under-getHasLimits", f.loc, "")
        # bound codes
        nbdf = field_of(_strip(a[5])) or var_of(_strip(a[5]))
        ws = [(b, q) for b, _, q in f.events(lambda q: q["k"] == "assign" and q["op"] == "=" and isinstance(q["lhs"], list) and q["lhs"][0] in ("idx", "opc") and
                                              (field_of(q["lhs"][1]) == nbdf or var_of(q["lhs"][1]) == nbdf))]
        with_l = [(b, q) for b, q in ws if only_via(f, b, he)]
        without = [(b, q) for b, q in ws if hn and only_via(f, b, hn)]
        table = {}
        loops = f.loops()
        okloop = True
        for b, q in with_l:
            iv = _strip(q["lhs"][2])
            hs = [h for h in loops if b in loops[h] and _whole_loop(f, h, lambda x: True) == (iv[1] if iv[:1] == ["var"] else None)]
            okloop = okloop and bool(hs)
            for loinf in (True, False):
                for upinf in (True, False):
                    v = _code(f, b, q, lo, up, iv, loinf, upinf, P)
                    if v is not None:
                        table.setdefault((loinf, upinf), set()).add(v)
        want = {(True, True): {0}, (True, False): {3}, (False, True): {1}, (False, False): {2}}
        chk.judge(bool(with_l) and table == want and okloop, "LIMITS", "LBFGSB:nbd-codes-agree-with-the-L-BFGS-B-table", f.loc,
                  "(lower infinite?, upper infinite?) -> nbd: %s; L-BFGS-B: 0 unbounded, 1 lower only, 2 both, 3 upper only" % {k: sorted(map(str, v)) for k, v in sorted(table.items())})
        okz = bool(without) and all(_lit(q["rhs"], ("0",)) for b, q in without)
        chk.judge(okz, "LIMITS", "LBFGSB:no-limits-means-nbd-0", f.loc, "")
    # IPOPT
    f = P.fn("SimTK::InteriorPointOptimizer::optimize")
    lv = _limits_vars(f)
    cp = _calls(f, "CreateIpoptProblem")
    if chk.shape(lv is not None and len(cp) == 1, "LIMITS", "IPOPT:getParameterLimits-and-CreateIpoptProblem", f.loc, ""):
        lo, up, _ = lv
        a = call_args(cp[0][2])
        chk.judge(var_of(_strip(a[1])) == lo and var_of(_strip(a[2])) == up, "LIMITS", "IPOPT:CreateIpoptProblem(x_L=lower,x_U=upper)", "%s:%d" % (f.file, cp[0][2]["line"]), "")
        gl, gu = field_of(_strip(a[4])), field_of(_strip(a[5]))
        chk.judge(bool(gl) and bool(gu) and gl != gu and gl.endswith("g_L") and gu.endswith("g_U"), "LIMITS", "IPOPT:constraint-bounds-are-the-members", f.loc, "%s, %s" % (gl, gu))
        # option keys
        bad = []
        nopt = 0
        for _, _, e in _calls(f, "AddIpoptNumOption"):
            aa = call_args(e)
            k = aa[1][1] if aa[1][:1] == ["str"] else None
            src = field_of(_strip(aa[2]))
            if k is None or not src or not src.startswith(REP + "::"):
                continue
            nopt += 1
            want = "constraintTolerance" if "constr_viol" in k else "convergenceTolerance"
            if k.endswith("tol") and not src.endswith("::" + want):
                bad.append("%s <- %s" % (k, src.split("::")[-1]))
        chk.judge(nopt >= 4 and not bad, "LIMITS", "IPOPT:tolerance-options-take-the-matching-member", f.loc, "; ".join(bad) if bad else "%d options" % nopt)
        ks = {call_args(e)[1][1] for _, _, e in _calls(f, "AddIpoptNumOption") if call_args(e)[1][:1] == ["str"] and field_of(_strip(call_args(e)[2]))}
        chk.judge({"tol", "constr_viol_tol"} <= ks, "LIMITS", "IPOPT:tol-and-constr_viol_tol-are-set", f.loc, "")
    # constructor: constraint rows
    ctors = [m for m in P.methods_of("SimTK::InteriorPointOptimizer") if m.kind == "ctor" and m.blocks and len(m.d["params"]) == 1 and "OptimizerSystem" in m.d["params"][0][1]]
    if chk.shape(len(ctors) == 1, "LIMITS", "IPOPT:constructor", "", "%d" % len(ctors)):
        c = ctors[0]
        loops = c.loops()
        rows = {}
        for h, body in loops.items():
            iv, cc = _loop_var(c, h)
            if not iv or not isinstance(cc, list) or cc[1] != "<":
                continue
            ds = sorted([d for _, _, d in c.events(lambda q: q["k"] == "decl" and q["var"] == iv) if d["line"] <= c.blocks[h]["term"]["line"]], key=lambda d: d["line"])[-1:]
            init = expand_locals(c, ds[0].get("init")) if ds else None
            bound = expand_locals(c, cc[3])
            w = {}
            for b in body:
                for q in c.blocks[b]["ev"]:
                    if q["k"] == "assign" and q["op"] == "=" and isinstance(q["lhs"], list) and q["lhs"][0] in ("idx", "opc") and _strip(q["lhs"][2]) == ["var", iv]:
                        fld = field_of(q["lhs"][1])
                        if fld and fld.split("::")[-1] in ("g_L", "g_U"):
                            r = q["rhs"]
                            while isinstance(r, list) and r[:1] == ["op"] and r[1] == "=":
                                r = r[3]
                            w[fld.split("::")[-1]] = r
            if w and _steps(c, body, iv) == ["++"]:
                rows[h] = (init, bound, w)
        is_neq = lambda x: bool(sx_find(x, lambda y: y[0] == "call" and str(y[1]).endswith("::getNumEqualityConstraints")))
        is_m = lambda x: bool(sx_find(x, lambda y: y[0] == "call" and str(y[1]).endswith("::getNumConstraints")))
        eq = [r for r in rows.values() if _lit(r[0], ("0",)) and is_neq(r[1])]
        only_neq = lambda x: isinstance(_strip(x), list) and _strip(x)[:1] == ["call"] and str(_strip(x)[1]).endswith("::getNumEqualityConstraints")
        ineq = [r for r in rows.values() if only_neq(r[0]) and is_m(r[1]) and not is_neq(r[1])]
        eq = [r for r in eq if only_neq(r[1])]
        zero = lambda x: _lit(x, ("0", "0.0", "0."))
        inf = lambda x: bool(sx_find(x, lambda y: (y[0] in ("gvar", "var", "lit", "enum") and re.search(r"POSITIVE_INF|Infinity|2e19|1e19", str(y[1])) is not None)))
        chk.judge(len(eq) == 1 and zero(eq[0][2].get("g_L")) and zero(eq[0][2].get("g_U")), "LIMITS", "IPOPT:rows[0,nEq)-are-equalities", c.loc, "g_L = g_U = 0 for i = 0 .. numEqualityConstraints-1")
        chk.judge(len(ineq) == 1 and zero(ineq[0][2].get("g_L")) and ineq[0][2].get("g_U") is not None and inf(ineq[0][2].get("g_U")) and not zero(ineq[0][2].get("g_U")), "LIMITS",
                  "IPOPT:rows[nEq,m)-are-inequalities->=0", c.loc, "g_L = 0, g_U = +infinity for i = numEqualityConstraints .. numConstraints-1")
    chk.floor("LIMITS", 9)


def _code(f, b, q, lo, up, iv, loinf, upinf, P=None):
    """the bound code assigned by q (in block b) for a coordinate whose lower / upper limit is / is not infinite.  Tests of the form
    lower[i] == -Infinity / upper[i] == Infinity (and !=, and comparisons `> -Infinity`, `< Infinity`) take their value from the combination;
    single-assignment locals are expanded; conditional expressions, !, &&, ||, + and integer literals are evaluated; anything else is '?'."""
    def inf_test(c):
        """truth of an infinity test on lower[iv] / upper[iv], or None"""
        if not (isinstance(c, list) and len(c) == 4 and c[0] in ("op", "opc") and c[1] in ("==", "!=", "<", ">", "<=", ">=")):
            return None
        l, r = _strip(c[2]), _strip(c[3])
        for x, y, op in ((l, r, c[1]), (r, l, {"<": ">", ">": "<", "<=": ">=", ">=": "<="}.get(c[1], c[1]))):
            isinf = bool(sx_find(y, lambda z: z[0] in ("gvar", "var") and str(z[1]).split("::")[-1] in ("Infinity", "MostPositiveReal", "MostNegativeReal")))
            if isinf and isinstance(x, list) and x[0] in ("idx", "opc") and _strip(x[-1]) == iv:
                arr = var_of(x[1] if x[0] == "idx" else x[2])
                neg = bool(sx_find(y, lambda z: z[0] == "un" and z[1] == "-")) or bool(sx_find(y, lambda z: z[0] in ("gvar", "var") and "Negative" in str(z[1])))
                if arr == lo and neg:          # compared with -Infinity
                    is_inf = loinf
                    return {"==": is_inf, "!=": not is_inf, ">": not is_inf, "<=": is_inf}.get(op)
                if arr == up and not neg:      # compared with +Infinity
                    is_inf = upinf
                    return {"==": is_inf, "!=": not is_inf, "<": not is_inf, ">=": is_inf}.get(op)
        return None

    def val(x, depth=6):
        x = _strip(x)
        if depth <= 0 or not isinstance(x, list) or not x:
            return "?"
        if x[0] == "var":
            y = expand_locals(f, x, depth=1)
            return val(y, depth - 1) if y != x else "?"
        if x[0] == "lit":
            if str(x[1]) in ("true", "false"):
                return 1 if x[1] == "true" else 0
            try:
                return int(x[1])
            except ValueError:
                return "?"
        t = inf_test(x)
        if t is not None:
            return 1 if t else 0
        if x[:2] == ["opc", "()"] and len(x) >= 3 and isinstance(x[2], list) and x[2][:1] == ["var"] and P is not None:
            # a call of a local lambda: evaluate its body with the arguments substituted for its parameters
            ds = [d for _, _, d in f.events(lambda d: d["k"] == "decl" and d["var"] == x[2][1] and isinstance(d.get("init"), list) and d["init"][:1] == ["lambda"])]
            gs = [g_ for g_ in P.all_fns() if ds and g_.id.startswith(ds[0]["init"][1] + "(")] if len(ds) == 1 else []
            if len(gs) == 1 and len(gs[0].d.get("params", [])) == len(x) - 3:
                g_ = gs[0]
                env = {p_[0]: a_ for p_, a_ in zip(g_.d["params"], x[3:])}
                dead_ = set()
                for bb, blk in g_.blocks.items():
                    t_ = blk.get("term")
                    if t_ and t_.get("cond") is not None and len(blk["succ"]) == 2:
                        tv = val(subst(t_["cond"], env), depth - 1)
                        if tv != "?":
                            dead_.add((bb, blk["succ"][1 if tv else 0]))
                seen_, st_ = {g_.entry}, [g_.entry]
                while st_:
                    y = st_.pop()
                    for s_ in g_.succs(y):
                        if s_ not in seen_ and (y, s_) not in dead_:
                            seen_.add(s_)
                            st_.append(s_)
                vals = {val(subst(r["val"], env), depth - 1) for b_, _, r in g_.events(lambda q: q["k"] == "ret") if b_ in seen_ and r.get("val") is not None}
                return next(iter(vals)) if len(vals) == 1 else "?"
            return "?"
        if x[0] == "cond" and len(x) == 4:
            c = val(x[1], depth - 1)
            return "?" if c == "?" else val(x[2] if c else x[3], depth - 1)
        if x[0] == "un" and x[1] == "!" and len(x) == 3:
            c = val(x[2], depth - 1)
            return "?" if c == "?" else (0 if c else 1)
        if x[0] == "op" and len(x) == 4 and x[1] in ("&&", "||", "+", "*", "-"):
            a, b_ = val(x[2], depth - 1), val(x[3], depth - 1)
            if a == "?" or b_ == "?":
                return "?"
            return {"&&": int(bool(a) and bool(b_)), "||": int(bool(a) or bool(b_)), "+": a + b_, "*": a * b_, "-": a - b_}[x[1]]
        return "?"
    # is block b reachable under this combination?  (branches on the infinity tests)
    dead = set()
    for bb, blk in f.blocks.items():
        t = blk.get("term")
        if t and t.get("cond") is not None and len(blk["succ"]) == 2:
            tv = val(t["cond"])
            if tv != "?":
                dead.add((bb, blk["succ"][1 if tv else 0]))
    seen, st = {f.entry}, [f.entry]
    while st:
        x = st.pop()
        for s in f.succs(x):
            if s not in seen and (x, s) not in dead:
                seen.add(s)
                st.append(s)
    if b not in seen:
        return None
    return val(q["rhs"])


# ---------------------------------------------------------------- SELECT
def select(chk, P):
    chk.rule("SELECT", "BestAvailable never picks a driver that ignores what the problem has: the default choice constructs the unconstrained, unbounded L-BFGS driver only "
             "where `no constraints` and `no limits` are known, and the bounded L-BFGS-B driver only where `no constraints` is known")
    f = P.fn("SimTK::Optimizer::constructOptimizerRep")
    repv = None
    for b, blk in f.blocks.items():
        t = blk.get("term")
        c = t.get("cond") if t else None
        if isinstance(c, list) and c[:2] == ["un", "!"] and isinstance(_strip(c[2]), list) and _strip(c[2])[:1] == ["var"]:
            repv = _strip(c[2])[1]
    if not chk.shape(repv is not None, "SELECT", "default-region", f.loc, "`if (!newRep)`"):
        return
    dflt = known_edges(f, lambda c: isinstance(c, list) and c[:2] == ["un", "!"] and _strip(c[2]) == ["var", repv] or _cmp(c, ("==",), lambda x: x == ["var", repv], lambda x: _lit(x, ("0", "nullptr", "null"))),
                       lambda c: _strip(c) == ["var", repv] or _cmp(c, ("!=",), lambda x: x == ["var", repv], lambda x: _lit(x, ("0", "nullptr", "null"))))
    has_c = lambda c: _cmp(c, (">",), lambda x: isinstance(x, list) and x[:1] == ["call"] and str(x[1]).endswith("::getNumConstraints"), lambda x: _lit(x, ("0",)))
    no_c = lambda c: _cmp(c, ("==", "<="), lambda x: isinstance(x, list) and x[:1] == ["call"] and str(x[1]).endswith("::getNumConstraints"), lambda x: _lit(x, ("0",)))
    has_l = lambda c: isinstance(_strip(c), list) and _strip(c)[:1] == ["call"] and str(_strip(c)[1]).endswith("::getHasLimits")
    e_noc = known_edges(f, no_c, has_c)
    e_nol = known_edges(f, lambda c: False, has_l)
    e_c = known_edges(f, has_c, no_c)
    e_l = known_edges(f, has_l, lambda c: False)
    news = [(b, e) for b, _, e in f.events(lambda q: q["k"] == "new") if only_via(f, b, dflt)]
    chk.shape(len(news) >= 3, "SELECT", "default-constructions", f.loc, "%d `new <driver>` in the default region" % len(news))
    for b, e in news:
        ty = str(e.get("ty", "")).split("::")[-1]
        site = "%s:%d" % (f.file, e["line"])
        if ty == "LBFGSOptimizer":
            chk.judge(only_via(f, b, e_noc) and only_via(f, b, e_nol), "SELECT", "default:LBFGS-only-without-constraints-and-limits", site, "")
        elif ty == "LBFGSBOptimizer":
            chk.judge(only_via(f, b, e_noc), "SELECT", "default:LBFGSB-only-without-constraints", site, "")
        elif ty == "InteriorPointOptimizer":
            chk.ok("SELECT", "default:InteriorPoint-handles-everything", site, "")
        else:
            chk.judge(False, "SELECT", "default:%s" % ty, site, "a driver this rule has no entry for is constructed by default")
    chk.floor("SELECT", 4)


def run(chk, tier, overlays=()):
    units = units_matching(UNITS)
    P = Program(extract(units, hdr=r"Optimizers/src/CMAESOptimizer\.h$", overlays=overlays))
    chk.units += units
    chk.nfunctions += len(P.fns)
    evalgate(chk, P)
    pair(chk, P)
    status(chk, P)
    limits(chk, P)
    select(chk, P)


_CM = "SimTKmath/Optimizers/src/CMAESOptimizer.cpp"
_LB = "SimTKmath/Optimizers/src/LBFGSBOptimizer.cpp"
_L = "SimTKmath/Optimizers/src/LBFGSOptimizer.cpp"
_IP = "SimTKmath/Optimizers/src/InteriorPointOptimizer.cpp"
_OP = "SimTKmath/Optimizers/src/Optimizer.cpp"
_OR = "SimTKmath/Optimizers/src/OptimizerRep.cpp"
MUTATIONS = [
    dict(name="CMA-ES evaluates the population before resampling it into the limits", arm=True, file=_CM,
         old="        resampleToObeyLimits(evo, pop);\n", new="", also=[("        cmaes_UpdateDistribution(&evo, funvals);\n", "        cmaes_UpdateDistribution(&evo, funvals);\n        resampleToObeyLimits(evo, pop);\n")],
         expect="EVALGATE:optimize:resample-between-sampling-and-evaluation"),
    dict(name="CMA-ES resampling tests only the lower limit", file=_CM,
         old="if (pop[i][j] < lower[j] || pop[i][j] > upper[j]) {", new="if (pop[i][j] < lower[j]) {", expect="EVALGATE:resampleToObeyLimits:coordinate-accepted-only-if-<=upper[j]"),
    dict(name="CMA-ES resampling compares coordinate j with the limits of member index i", file=_CM,
         old="if (pop[i][j] < lower[j] || pop[i][j] > upper[j]) {", new="if (pop[i][j] < lower[i] || pop[i][j] > upper[i]) {", expect="EVALGATE:resampleToObeyLimits"),
    dict(name="CMA-ES resampling accepts a member after its first violated coordinate was redrawn", file=_CM,
         old="                        feasible = false; \n                        pop = cmaes_ReSampleSingle(&evo, i); \n                        break; ",
         new="                        pop = cmaes_ReSampleSingle(&evo, i); \n                        break; ", expect="EVALGATE:resampleToObeyLimits:member-accepted-only-after-all-coordinates"),
    dict(name="CMA-ES limits fetched as (upper, lower)", file=_CM,
         old="        sys.getParameterLimits( &lower, &upper );\n\n        for (int i = 0; i < cmaes_Get(&evo, \"popsize\"); i++) {",
         new="        sys.getParameterLimits( &upper, &lower );\n\n        for (int i = 0; i < cmaes_Get(&evo, \"popsize\"); i++) {", expect="EVALGATE:resampleToObeyLimits"),
    dict(name="CMA-ES returns the best-ever point with the current mean's value", arm=True, file=_CM,
         old="    f = cmaes_Get(&evo, \"fbestever\");", new="    f = cmaes_Get(&evo, \"fctvalue\");", expect="PAIR:CMAES:returned-f-and-x-have-the-same-key"),
    dict(name="CMA-ES serial evaluation writes every value to slot 0", file=_CM,
         old="                    pop[i], true, &funvals[i], this);", new="                    pop[i], true, &funvals[0], this);", expect="EVALGATE:evaluate:member-i-into-slot-i"),
    dict(name="L-BFGS returns the solver's last trial value", arm=True, file=_L,
         old="    objectiveFuncWrapper(n, &results[0], true, &f, this);\n    return f;", new="    return f;", expect="PAIR:LBFGS:objective-re-evaluated"),
    dict(name="L-BFGS-B returns normally on an abnormal termination", arm=True, file=_LB,
         old="            if( strncmp( task, \"CONV\", 4) != 0 ){", new="            if( strncmp( task, \"ERROR\", 5) == 0 ){", expect="STATUS:LBFGSB:normal-return-only-after-CONV"),
    dict(name="L-BFGS-B bound codes for one-sided limits swapped", arm=True, file=_LB,
         old="                 nbd[i] = (upperLimits[i] == Infinity ? 0 : 3);\n            else nbd[i] = (upperLimits[i] == Infinity ? 1 : 2);",
         new="                 nbd[i] = (upperLimits[i] == Infinity ? 0 : 1);\n            else nbd[i] = (upperLimits[i] == Infinity ? 3 : 2);", expect="LIMITS:LBFGSB:nbd-codes"),
    dict(name="L-BFGS-B limits handed over as (upper, lower)", file=_LB,
         old="        setulb_(&n, &m, &results[0], lowerLimits,\n                upperLimits, nbd,", new="        setulb_(&n, &m, &results[0], upperLimits,\n                lowerLimits, nbd,", expect="LIMITS:LBFGSB:setulb"),
    dict(name="IPOPT returns normally when the iteration limit was hit", arm=True, file=_IP,
         old="        } else if (status != Solve_Succeeded) {", new="        } else if (status != Solve_Succeeded && status != Maximum_Iterations_Exceeded) {", expect="STATUS:IPOPT:normal-return-only-on-success-statuses"),
    dict(name="IPOPT constraint violation tolerance taken from the convergence tolerance", file=_IP,
         old="        AddIpoptNumOption(nlp, \"constr_viol_tol\", constraintTolerance);", new="        AddIpoptNumOption(nlp, \"constr_viol_tol\", convergenceTolerance);", expect="LIMITS:IPOPT:tolerance-options"),
    dict(name="IPOPT inequality rows start one row late", file=_IP,
         old="        for(int i=sys.getNumEqualityConstraints();i<m;i++){", new="        for(int i=sys.getNumEqualityConstraints()+1;i<m;i++){", expect="LIMITS:IPOPT:rows[nEq,m)"),
    dict(name="BestAvailable picks L-BFGS for a problem with limits", arm=True, file=_OP,
         old="        } else if( sys.getHasLimits() ) {\n            newRep = (OptimizerRep *) new LBFGSBOptimizer( sys  );\n        } else {",
         new="        } else if( !sys.getHasLimits() ) {\n            newRep = (OptimizerRep *) new LBFGSBOptimizer( sys  );\n        } else {", expect="SELECT:default:LBFGS-only-without-constraints-and-limits"),
    dict(name="objective wrapper evaluates a copy of the parameters into a local", file=_OR,
         old="    Real&           frep        = *f;\n\n    return (rep->getOptimizerSystem().objectiveFunc(params, isNewParam, frep)==0) ",
         new="    Real            frep        = *f;\n\n    return (rep->getOptimizerSystem().objectiveFunc(params, isNewParam, frep)==0) ", expect="PAIR:objectiveFuncWrapper"),
    dict(name="gradient wrapper reports failure as success", file=_OR,
         old="    return (osys.gradientFunc(params, isNewParam, grad_vec)==0)\n            ? 1 : 0;", new="    return (osys.gradientFunc(params, isNewParam, grad_vec)==0)\n            ? 1 : 1;", expect="PAIR:gradientFuncWrapper:status-0-is-success"),
]
