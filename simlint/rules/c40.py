"""C40 -- Numerical differentiation meets its error bounds (difference-scheme clauses only).

The size of the truncation / rounding error for a given smooth function is numerical analysis and is NOT decided.  What the statement
needs from the shape of Differentiator.cpp, and what is decided here for every function, dimension and evaluation point:
 QUOTIENT  every result the three difference routines store is a finite-difference combination  sum_k c_k F(y + k h e_i)  of the function
           values they obtained, and the coefficients satisfy the consistency conditions  sum c_k = 0,  sum c_k k h = 1  (exact for affine
           functions) and, on the second-order path,  sum c_k k^2 = 0  (exact for quadratics).  The combination is read off the code
           by tracking which perturbation (+h, -h, 0) each stored function value was computed at and normalising the arithmetic to a
           linear form with rational coefficients in h -- no formula text is compared.
 PERTURB   one coordinate at a time: the work vector starts as the evaluation point, the loop runs over every parameter, each function call
           is made on the work vector while exactly coordinate i is displaced, coordinate i is restored on every path before the next
           iteration, and the estimate lands in slot i of the result.
 STEP      the step is built from the SAME coordinate it displaces, from the accuracy factor of the SAME order the path's formula has
           (getAccFac(order); order 1 -> AccFac1 = sqrt(acc), order 2 -> AccFac2 = acc^(1/3)), ForwardDifference has order 1 and
           CentralDifference order 2, and the forward formula is used exactly where order == 1 is known.
 BASE      the nine shape adapters hand the difference routine an unperturbed value that belongs to the point they hand it: the caller's,
           or the function evaluated at that very point."""
from fractions import Fraction
from ..facts import extract, units_matching, Program, sx_find, sx_str
from ..match import call_args, call_obj, var_of, field_of, ev_write, known_edges, only_via, expand_locals, subst, fact_edges, value_sets, effective_calls
from ..columns import _loop_var, _steps, _lit, _iter_bypass

UNITS = r"SimTKmath/src/Differentiator\.cpp$"
REP = "SimTK::Differentiator::DifferentiatorRep"


def _strip(x):
    while isinstance(x, list) and x and x[0] in ("cast", "conv", "paren"):
        x = x[2] if x[0] == "cast" else x[1]
    return x


# ---- linear forms:  {(symbol or None, power of h): Fraction}
def _lf_add(a, b, sign=1):
    r = dict(a)
    for k, v in b.items():
        r[k] = r.get(k, 0) + sign * v
        if r[k] == 0:
            del r[k]
    return r


def _lf_mul(a, b):
    """product, defined when at most one factor carries symbols"""
    r = {}
    for (sa, pa), va in a.items():
        for (sb, pb), vb in b.items():
            if sa is not None and sb is not None:
                return None
            k = (sa if sa is not None else sb, pa + pb)
            r[k] = r.get(k, 0) + va * vb
    return {k: v for k, v in r.items() if v != 0}


def _lf_div(a, b):
    if b is None or len(b) != 1:
        return None
    (sb, pb), vb = next(iter(b.items()))
    if sb is not None or vb == 0:
        return None
    return {(s, p - pb): v / vb for (s, p), v in a.items()}


def linform(x, sym, hvar):
    """x as a linear form over the symbols sym(x') -> name, with coefficients q * h^p; None if x is not of that shape"""
    x = _strip(x)
    if not isinstance(x, list) or not x:
        return None
    s = sym(x)
    if s is not None:
        return {(s, 0): Fraction(1)}
    if x[0] == "var" and x[1] == hvar:
        return {(None, 1): Fraction(1)}
    if x[0] == "lit":
        try:
            return {(None, 0): Fraction(str(x[1]).rstrip("fFlL"))}
        except (ValueError, ZeroDivisionError):
            return None
    if x[0] == "ctor" and len(x) > 2 and len(x[2]) == 1:
        return linform(x[2][0], sym, hvar)
    if x[0] == "un" and x[1] == "-" and len(x) == 3:
        a = linform(x[2], sym, hvar)
        return None if a is None else {k: -v for k, v in a.items()}
    if x[0] in ("op", "opc") and len(x) == 4 and x[1] in ("+", "-", "*", "/"):
        a, b = linform(x[2], sym, hvar), linform(x[3], sym, hvar)
        if a is None or b is None:
            return None
        if x[1] == "+":
            return _lf_add(a, b)
        if x[1] == "-":
            return _lf_add(a, b, -1)
        if x[1] == "*":
            return _lf_mul(a, b)
        return _lf_div(a, b)
    return None


def _paths(f, start, stop_blocks, limit=64):
    """acyclic block paths from `start` to any block of stop_blocks (inclusive)"""
    out, st = [], [(start, (start,))]
    infeas = f.infeasible_edges()
    while st and len(out) < limit:
        b, p = st.pop()
        if b in stop_blocks:
            out.append(list(p))
            continue
        for s in f.succs(b):
            if s in p or (b, s) in infeas:
                continue
            st.append((s, p + (s,)))
    return out


def _scheme(f, path, point_is, base_of, hvar, y0_elem, fy0v):
    """walk the events of a block path; returns (stored results [(event, linear form over offsets)], calls [(event, offset)], offset at the end)
    point_is(x): x is the (element of the) probe point being displaced;  base_of(x): x is the unperturbed coordinate value"""
    off = Fraction(0)            # displacement of the probed coordinate, in units of h
    known = {}                   # output variable text -> offset it was computed at
    results, calls = [], []
    for b in path:
        for e in f.blocks[b]["ev"]:
            w = ev_write(e) if e["k"] in ("assign", "call", "decl") else None
            if e["k"] == "decl" and e.get("init") is not None and point_is(["var", e["var"]]):
                w = (["var", e["var"]], "=", e["init"])
            if w and w[1] == "=" and point_is(w[0]):
                lf = linform(w[2], lambda x: "y" if base_of(x) else None, hvar)
                if lf is None or lf.get(("y", 0)) != 1 or any(k not in (("y", 0), (None, 1)) for k in lf):
                    off = None
                else:
                    off = lf.get((None, 1), Fraction(0))
                continue
            if e["k"] == "call" and str(e.get("fn", "")).endswith("FunctionRep::call"):
                a = call_args(e)
                calls.append((e, off, a[0]))
                known[sx_str(_strip(a[1]))] = off
                continue
            if w and w[1] == "=" and not point_is(w[0]):
                rhs = w[2]

                def sym(x):
                    t = sx_str(_strip(x))
                    if t in known:
                        return ("F", known[t])
                    if _strip(x) == ["var", fy0v]:
                        return ("F", Fraction(0))
                    return None
                if sx_find(rhs, lambda y: sym(y) is not None):
                    results.append((e, w[0], linform(rhs, sym, hvar)))
    return results, calls, off


def _conditions(lf):
    """(sum c_k, sum c_k k h, sum c_k k^2) of a scheme given as {(('F', k), p): q}, each as {power of h: Fraction}"""
    s0, s1, s2 = {}, {}, {}
    for (s, p), q in lf.items():
        if s is None:
            return None
        k = s[1]
        for d, val, pw in ((s0, q, p), (s1, q * k, p + 1), (s2, q * k * k, p)):
            d[pw] = d.get(pw, 0) + val
    clean = lambda d: {k: v for k, v in d.items() if v != 0}
    return clean(s0), clean(s1), clean(s2)


def schemes(chk, P):
    chk.rule("QUOTIENT", "every stored estimate is sum_k c_k F(y + k h e_i) with sum c_k = 0 and sum c_k k h = 1 (exact for affine functions); on the path that is not "
             "the order-1 path also sum c_k k^2 = 0 (exact for quadratics)")
    chk.rule("PERTURB", "one coordinate at a time: work vector = evaluation point before the loop; every parameter visited; calls made on the work vector while coordinate i is "
             "displaced; coordinate i restored on every path to the next iteration; estimate stored in slot i")
    chk.rule("STEP", "the step comes from the coordinate it displaces and from the accuracy factor of the order whose formula the path uses")
    nq = 0
    for name in ("calcDerivative", "calcGradient", "calcJacobian"):
        f = P.fn(REP + "::" + name)
        ps = [p_[0] for p_ in f.d["params"]]
        y0v, fy0v, outv = ps[2], ps[3], ps[4]
        vector = "Vector" in f.d["params"][2][1]
        loops = f.loops()
        # the step variable: initialised by cleanUpH(hEst, base coordinate)
        hd = [d for _, _, d in f.events(lambda d: d["k"] == "decl" and isinstance(d.get("init"), list) and d["init"][:1] == ["call"] and str(d["init"][1]).endswith("cleanUpH"))]
        step_chain = expand_locals(f, hd[0]["init"], depth=3) if len(hd) == 1 else None
        if not hd:
            # the step computed by a helper of the same class whose single return is the cleanUpH(..) chain: substitute the arguments
            for _, _, d in f.events(lambda d: d["k"] == "decl" and isinstance(d.get("init"), list) and d["init"][:1] == ["call"]):
                gs = [g_ for g_ in P.all_fns() if g_.name == str(d["init"][1]) and g_.cls == REP and g_.blocks]
                if len(gs) != 1:
                    continue
                rets = [r for _, _, r in gs[0].events(lambda q: q["k"] == "ret")]
                if len(rets) == 1 and isinstance(rets[0].get("val"), list):
                    body = expand_locals(gs[0], rets[0]["val"], depth=3)
                    if sx_find(body, lambda y: y[0] == "call" and str(y[1]).endswith("cleanUpH")) and len(gs[0].d["params"]) == len(d["init"][3]):
                        hd = [d]
                        step_chain = subst(body, {p_[0]: a_ for p_, a_ in zip(gs[0].d["params"], d["init"][3])})
        if not chk.shape(len(hd) == 1, "STEP", name + ":step-variable", f.loc, "h = cleanUpH(hEst, y)"):
            continue
        hvar = hd[0]["var"]
        if vector:
            hs = [h for h in loops if _loop_var(f, h)[0]]
            if not chk.shape(len(hs) == 1, "PERTURB", name + ":parameter-loop", f.loc, "%d loops" % len(hs)):
                continue
            h = hs[0]
            iv, c = _loop_var(f, h)
            body = loops[h]
            ds = [d for _, _, d in f.events(lambda q: q["k"] == "decl" and q["var"] == iv)]
            bound = expand_locals(f, c[3])
            okl = len(ds) == 1 and _lit(ds[0].get("init"), ("0",)) and c[1] == "<" and _steps(f, body, iv) == ["++"] and \
                (field_of(_strip(bound)) == REP + "::NParameters" or bool(sx_find(bound, lambda y: y[0] == "call" and str(y[1]).endswith("::getNumParameters"))))
            chk.judge(okl, "PERTURB", name + ":every-parameter", f.loc, "loop %s = 0; %s; ++" % (iv, sx_str(c)))
            # the work vector: the object whose element [iv] is assigned in the loop and which is passed to the function
            wv = None
            for b in body:
                for e in f.blocks[b]["ev"]:
                    if e["k"] == "call" and str(e.get("fn", "")).endswith("FunctionRep::call"):
                        wv = _strip(call_args(e)[0])
            if not chk.shape(wv is not None, "PERTURB", name + ":work-vector", f.loc, "argument of the function calls"):
                continue
            elem = lambda x, v=wv: isinstance(_strip(x), list) and _strip(x)[:2] == ["opc", "[]"] and _strip(_strip(x)[2]) == v and _strip(_strip(x)[3]) == ["var", iv]
            base = lambda x: isinstance(_strip(x), list) and _strip(x)[:2] == ["opc", "[]"] and _strip(_strip(x)[2]) == ["var", y0v] and _strip(_strip(x)[3]) == ["var", iv]
            # starts as the evaluation point
            init = [(b, i, e) for b, i, e in f.events(lambda q: q["k"] == "call" and q.get("op") == "=" and isinstance(q.get("x"), list) and _strip(q["x"][2]) == wv and _strip(q["x"][3]) == ["var", y0v])]
            okin = bool(init) and f.path_exists(None, lambda q: q["k"] == "call" and str(q.get("fn", "")).endswith("FunctionRep::call"), lambda q: any(q is x[2] for x in init), lift=0) is None and \
                all(b not in body for b, _, _ in init)
            chk.judge(okin, "PERTURB", name + ":work-vector-starts-as-the-evaluation-point", f.loc, "%s = %s before the loop" % (sx_str(wv), y0v))
            # nothing else writes the work vector in the loop except element iv
            other = [e for b in body for e in f.blocks[b]["ev"] if ev_write(e) and sx_find(ev_write(e)[0], lambda y: y == wv) and not elem(ev_write(e)[0])]
            chk.judge(not other, "PERTURB", name + ":only-coordinate-i-is-displaced", f.loc, "%d other writes of the work vector in the loop" % len(other))
            start = f.succs(h)[0]
            stops = {b for b in body for e in f.blocks[b]["ev"] if e["k"] == "assign" and e["lhs"] == ["var", iv] and e["op"] == "++"}
            paths = _paths(f, start, stops)
            y0e = base
        else:
            # scalar: the probe point is a local initialised / assigned from y0 +- h
            pv = None
            for _, _, e in f.calls():
                if str(e.get("fn", "")).endswith("FunctionRep::call"):
                    pv = _strip(call_args(e)[0])
            if not chk.shape(pv is not None and pv[:1] == ["var"], "PERTURB", name + ":probe-variable", f.loc, ""):
                continue
            elem = lambda x, v=pv: _strip(x) == v
            base = lambda x: _strip(x) == ["var", y0v]
            exits = {b for b, blk in f.blocks.items() if 0 in blk["succ"] or not blk["succ"]}
            paths = _paths(f, f.entry, {b for b in f.blocks if f.succs(b) == [] or f.succs(b) == [0]} or exits)
            iv = None
        if not chk.shape(bool(paths), "QUOTIENT", name + ":paths", f.loc, "paths through one estimate"):
            continue
        # which paths are the first-order ones: those crossing an edge where `order == 1` is known
        ordv = None
        for _, _, d in f.events(lambda d: d["k"] == "decl" and isinstance(d.get("init"), list) and d["init"][:1] == ["call"] and str(d["init"][1]).endswith("::getMethodOrder")):
            ordv = d["var"]
        chk.shape(ordv is not None, "STEP", name + ":order-variable", f.loc, "order = getMethodOrder(method)")
        is1 = lambda c_: isinstance(c_, list) and len(c_) == 4 and c_[1] == "==" and _strip(c_[2]) == ["var", ordv] and _lit(c_[3], ("1",))
        not1 = lambda c_: isinstance(c_, list) and len(c_) == 4 and ((c_[1] == "!=" and _strip(c_[2]) == ["var", ordv] and _lit(c_[3], ("1",))) or
                                                                     (c_[1] == "==" and _strip(c_[2]) == ["var", ordv] and _lit(c_[3], ("2",))))
        e1 = known_edges(f, is1, not1)
        e2 = known_edges(f, not1, is1)
        for n, path in enumerate(paths):
            first = any((a, b) in e1 for a, b in zip(path, path[1:]))
            second = any((a, b) in e2 for a, b in zip(path, path[1:]))
            tag = "order1" if first else ("order2" if second else "path%d" % n)
            results, calls, off = _scheme(f, path, elem, base, hvar, base, fy0v)
            site = "%s:%d" % (f.file, results[0][0]["line"]) if results else f.loc
            if not chk.shape(len(results) == 1 and results[0][2] is not None, "QUOTIENT", "%s:%s:one-estimate-stored" % (name, tag), site,
                             "%d results stored on this path; linear form %s" % (len(results), "found" if results and results[0][2] is not None else "not recognised")):
                continue
            e, lhs, lf = results[0]
            cond = _conditions(lf)
            nq += 1
            shown = " + ".join("(%s*h^%d) F(y%+dh)" % (q, p, s[1]) for (s, p), q in sorted(lf.items(), key=str)) if cond else "?"
            chk.judge(cond is not None and cond[0] == {} and cond[1] == {0: 1}, "QUOTIENT", "%s:%s:exact-for-affine-functions" % (name, tag), site,
                      "estimate = %s: sum c_k = %s, sum c_k k h = %s" % (shown, cond[0] if cond else None, cond[1] if cond else None))
            if not first:
                chk.judge(cond is not None and cond[2] == {}, "QUOTIENT", "%s:%s:exact-for-quadratics" % (name, tag), site,
                          "estimate = %s: sum c_k k^2 = %s" % (shown, cond[2] if cond else None))
            # calls are made while the coordinate is displaced, on the work vector / probe variable
            okc = bool(calls) and all(o is not None and o != 0 for _, o, _ in calls)
            chk.judge(okc, "PERTURB", "%s:%s:function-called-at-displaced-points" % (name, tag), site, "offsets (in h): %s" % [str(o) for _, o, _ in calls])
            if vector:
                chk.judge(off == 0, "PERTURB", "%s:%s:coordinate-restored-before-the-next-parameter" % (name, tag), site,
                          "displacement of coordinate %s at the end of the iteration: %s h" % (iv, off))
                slot = _strip(lhs)
                oks = isinstance(slot, list) and slot[0] in ("opc", "idx") and var_of(slot[2] if slot[0] == "opc" else slot[1]) == outv and _strip(slot[-1]) == ["var", iv]
                chk.judge(oks, "PERTURB", "%s:%s:estimate-stored-in-slot-i" % (name, tag), site, "%s" % sx_str(lhs))
            else:
                chk.judge(_strip(lhs) == ["var", outv], "PERTURB", "%s:%s:estimate-stored-in-the-result" % (name, tag), site, sx_str(lhs))
        # the order is that of the RESOLVED method: the caller's method argument may be `unspecified`, which stands for this object's default; it must
        # reach getMethodOrder only through the resolving helper (second argument: the object's defaultMethod), and be used nowhere else
        mv = ps[1]
        res = [d for _, _, d in f.events(lambda d: d["k"] == "decl" and isinstance(d.get("init"), list) and d["init"][:1] == ["call"] and str(d["init"][1]).endswith("getMethodOrThrow"))]
        okres = len(res) == 1 and _strip(res[0]["init"][3][0]) == ["var", mv] and field_of(_strip(res[0]["init"][3][1])) == REP + "::defaultMethod"
        od = [d for _, _, d in f.events(lambda d: d["k"] == "decl" and d["var"] == ordv)] if ordv else []
        okord = okres and len(od) == 1 and [_strip(z) for z in od[0]["init"][3]] == [["var", res[0]["var"]]]
        raw_uses = [e for _, _, e in f.events(lambda q: q["k"] in ("call", "decl", "assign", "ret")) if
                    sx_find([e.get("x"), e.get("init"), e.get("rhs"), e.get("val")], lambda y: y == ["var", mv]) and
                    not (e["k"] == "call" and str(e.get("fn", "")).endswith("getMethodOrThrow")) and not (okres and e is res[0])]
        chk.judge(okres and okord and not raw_uses, "STEP", name + ":order-of-the-resolved-method", f.loc,
                  "method = getMethodOrThrow(%s, defaultMethod, ..); order = getMethodOrder(method); other uses of the raw argument: %d" % (mv, len(raw_uses)))
        # STEP: h = cleanUpH(hEst, y0[i]); hEst = getAccFac(order) * max(|y0[i]|, YMin)
        chain = expand_locals(f, step_chain, depth=3)
        ys = sx_find(chain, lambda y: (y[0] == "opc" and y[1] == "[]" and _strip(y[2]) == ["var", y0v]) or (not vector and y == ["var", y0v]))
        oki = bool(ys) and all((not vector) or _strip(y[3]) == ["var", iv] for y in ys)
        chk.judge(oki, "STEP", name + ":step-from-the-displaced-coordinate", f.loc, "%s" % sorted({sx_str(y) for y in ys}))
        af = sx_find(chain, lambda y: y[0] == "call" and str(y[1]).endswith("::getAccFac"))
        chk.judge(len(af) >= 1 and all(_strip(a[3][0]) == ["var", ordv] or (isinstance(_strip(a[3][0]), list) and _strip(a[3][0])[:1] == ["call"] and str(_strip(a[3][0])[1]).endswith("::getMethodOrder")) for a in af), "STEP", name + ":accuracy-factor-of-the-path's-order", f.loc, "getAccFac(%s)" % ordv)
    chk.floor("QUOTIENT", 9)
    chk.floor("PERTURB", 14)


def tables(chk, P):
    # getAccFac: order 1 -> AccFac1, order 2 -> AccFac2
    g = P.fn(REP + "::getAccFac")
    ov = g.d["params"][0][0]
    for k, fld in (("1", "AccFac1"), ("2", "AccFac2")):
        e = fact_edges(g, lambda c, k=k: isinstance(c, list) and len(c) == 4 and c[1] == "==" and _strip(c[2]) == ["var", ov] and _lit(c[3], (k,)), None,
                       case=lambda sc, lab, k=k: _strip(sc) == ["var", ov] and _lit(lab, (k,)))
        rs = [(b, r) for b, _, r in g.events(lambda q: q["k"] == "ret") if field_of(_strip(r.get("val"))) == REP + "::" + fld]
        chk.judge(len(rs) == 1 and bool(e) and only_via(g, rs[0][0], e), "STEP", "getAccFac:order-%s->%s" % (k, fld), g.loc, "")
    # constructor: AccFac1 = sqrt(acc), AccFac2 = acc^(1/3)
    ctors = [m for m in P.methods_of(REP) if m.kind == "ctor" and m.blocks]
    if chk.shape(len(ctors) == 1, "STEP", "constructor", "", "%d" % len(ctors)):
        inits = {i_.get("field", "").split("::")[-1]: i_.get("init") for i_ in ctors[0].d.get("inits", []) if i_.get("written")}
        a1, a2 = inits.get("AccFac1"), inits.get("AccFac2")
        acc = lambda x: field_of(_strip(x)) == REP + "::EstimatedAccuracy"
        ok1 = bool(sx_find(a1, lambda y: y[0] == "call" and str(y[1]).split("::")[-1] == "sqrt" and acc(y[3][0])))
        ok2 = bool(sx_find(a2, lambda y: y[0] == "call" and str(y[1]).split("::")[-1] in ("pow", "cbrt") and acc(y[3][0]) and
                           (str(y[1]).endswith("cbrt") or bool(sx_find(y[3][1], lambda z: z[0] in ("gvar", "var") and str(z[1]).endswith("OneThird"))))))
        chk.judge(ok1, "STEP", "AccFac1=sqrt(accuracy)", ctors[0].loc, sx_str(a1) if a1 else "")
        chk.judge(ok2, "STEP", "AccFac2=accuracy^(1/3)", ctors[0].loc, sx_str(a2) if a2 else "")
        # EstimatedAccuracy is initialised before the factors that read it (declaration order)
        cls = P.classes.get(REP) if hasattr(P, "classes") else None
        order = [fl["name"] if isinstance(fl, dict) else fl[0] for fl in (cls.get("fields", []) if cls else [])]
        if order and all(n in order for n in ("EstimatedAccuracy", "AccFac1", "AccFac2")):
            chk.judge(order.index("EstimatedAccuracy") < min(order.index("AccFac1"), order.index("AccFac2")), "STEP", "accuracy-initialised-before-the-factors", ctors[0].loc,
                      "members are initialised in declaration order")
    # getMethodOrder
    m = P.fn("SimTK::Differentiator::getMethodOrder")
    mv = m.d["params"][0][0]
    uni = {"UnspecifiedMethod", "ForwardDifference", "CentralDifference"}
    VS = value_sets(m, lambda x: _strip(x) == ["var", mv], uni, kill=lambda q: q["k"] == "assign" and q["lhs"] == ["var", mv])
    got = {}
    for b, _, r in m.events(lambda q: q["k"] == "ret"):
        v = _strip(r.get("val"))
        if isinstance(v, list) and v[:1] == ["lit"] and len(VS[b]) == 1:
            got[next(iter(VS[b]))] = str(v[1])
    chk.judge(got.get("ForwardDifference") == "1" and got.get("CentralDifference") == "2", "STEP", "getMethodOrder:Forward->1,Central->2", m.loc, str(got))
    chk.floor("STEP", 13)


def base_values(chk, P):
    chk.rule("BASE", "each of the nine shape adapters passes the difference routine an unperturbed value that belongs to the point it passes: the caller's value, or the "
             "function evaluated at that same point into the variable that is passed on")
    n = 0
    for cls in ("SimTK::ScalarFunctionRep", "SimTK::GradientFunctionRep", "SimTK::JacobianFunctionRep"):
        for meth in ("calcDerivative", "calcGradient", "calcJacobian"):
            fs = [g for g in P.methods_of(cls) if g.name.endswith("::" + meth) and g.blocks]
            if not chk.shape(len(fs) == 1, "BASE", "%s::%s:found" % (cls.split("::")[-1], meth), "", "%d" % len(fs)):
                continue
            f = fs[0]
            fy0p = f.d["params"][3][0]
            diffs = [(b, i, e) for b, i, e in f.calls() if str(e.get("fn", "")).startswith(REP + "::calc")]
            evals = [(b, i, eff) for b, i, site, eff in effective_calls(P, f, cls + "::call")]
            inst = "%s::%s" % (cls.split("::")[-1], meth)
            if not chk.shape(len(diffs) >= 1 and len(evals) == 1, "BASE", inst + ":sites", f.loc, "%d difference calls, %d own evaluations" % (len(diffs), len(evals))):
                continue
            n += 1
            eb, ei, ev = evals[0]
            ea = call_args(ev)
            # the evaluation happens only where no base value was supplied
            have = known_edges(f, lambda c: _strip(c) == ["var", fy0p] or (isinstance(c, list) and len(c) == 4 and c[1] == "!=" and _strip(c[2]) == ["var", fy0p]),
                               lambda c: (isinstance(c, list) and c[:2] == ["un", "!"] and _strip(c[2]) == ["var", fy0p]) or
                               (isinstance(c, list) and len(c) == 4 and c[1] == "==" and _strip(c[2]) == ["var", fy0p]))
            none = known_edges(f, lambda c: (isinstance(c, list) and c[:2] == ["un", "!"] and _strip(c[2]) == ["var", fy0p]) or
                               (isinstance(c, list) and len(c) == 4 and c[1] == "==" and _strip(c[2]) == ["var", fy0p]),
                               lambda c: _strip(c) == ["var", fy0p] or (isinstance(c, list) and len(c) == 4 and c[1] == "!=" and _strip(c[2]) == ["var", fy0p]))
            chk.judge(bool(none) and only_via(f, eb, none), "BASE", inst + ":own-evaluation-only-without-a-supplied-value", "%s:%d" % (f.file, ev["line"]), "")
            ok = True
            why = []
            for db, di, de in diffs:
                da = call_args(de)
                point, value = da[2], da[3]
                reach_eval = f.path_exists((eb, ei), lambda q, de=de: q is de, lambda q: False, lift=0) is not None
                if reach_eval:
                    # evaluated at the same point, into the variable handed on
                    samept = sx_str(_strip(ea[0])) == sx_str(_strip(point))
                    samev = sx_str(_strip(ea[1])) == sx_str(_strip(value))
                    if not (samept and samev):
                        ok = False
                        why.append("evaluates at %s into %s but hands on (%s, %s)" % (sx_str(ea[0]), sx_str(ea[1]), sx_str(point), sx_str(value)))
                reach_supplied = have and any(f.path_exists(None, lambda q, de=de: q is de, lambda q: q is ev, lift=0) is not None for _ in [0])
                if reach_supplied:
                    # the supplied value reaches the variable handed on: `v = *fy0p` / `v[0] = *fy0p` / `(*fy0p)[0]` / `*fy0p` itself
                    vroot = var_of(_strip(value)) or (var_of(_strip(value)[2]) if isinstance(_strip(value), list) and _strip(value)[:2] == ["un", "*"] else None)
                    direct = bool(sx_find(value, lambda y: y == ["var", fy0p]))
                    copied = any(bool(sx_find(ev_write(q)[2], lambda y: y == ["var", fy0p])) and (var_of(ev_write(q)[0]) == vroot) for _, _, q in f.events(lambda q: bool(ev_write(q)) and ev_write(q)[1] == "="))
                    if not (direct or copied):
                        ok = False
                        why.append("the supplied value does not reach %s" % sx_str(value))
            chk.judge(ok, "BASE", inst + ":base-value-belongs-to-the-point", f.loc, "; ".join(why))
    chk.floor("BASE", 18)


def run(chk, tier, overlays=()):
    units = units_matching(UNITS)
    P = Program(extract(units, hdr="^$", overlays=overlays))
    chk.units += units
    chk.nfunctions += len(P.fns)
    schemes(chk, P)
    tables(chk, P)
    base_values(chk, P)


_D = "SimTKmath/src/Differentiator.cpp"
MUTATIONS = [
    dict(name="Jacobian: coordinate not restored after a central difference", arm=True, file=_D,
         old="            dfdy(i) = (fyptmp-fymtmp)/(2*h);\n        }\n        ytmp[i] = y0[i]; // restore", new="            dfdy(i) = (fyptmp-fymtmp)/(2*h);\n        }",
         also=[("            dfdy(i) = (fyptmp-fy0)/h;\n        } else {", "            dfdy(i) = (fyptmp-fy0)/h;\n            ytmp[i] = y0[i]; // restore\n        } else {")],
         expect="PERTURB:calcJacobian:order2:coordinate-restored-before-the-next-parameter"),
    dict(name="gradient: central difference divided by h instead of 2h", arm=True, file=_D,
         old="            gradf[i] = (fyplus-fyminus)/(2*h);", new="            gradf[i] = (fyplus-fyminus)/h;", expect="QUOTIENT:calcGradient:order2:exact-for-affine-functions"),
    dict(name="scalar: 'central' difference taken against the base value", file=_D,
         old="        dfdy = (fyplus-fyminus)/(2*h);", new="        dfdy = (fyplus-fy0)/h;", expect="QUOTIENT:calcDerivative:order2:exact-for-quadratics"),
    dict(name="Jacobian: second probe at y0 - h/2 with the 2h divisor", file=_D,
         old="            ytmp[i] = y0[i]-h; \n            nCallsToUserFunction++; f.call(ytmp, fymtmp);", new="            ytmp[i] = y0[i]-h/2; \n            nCallsToUserFunction++; f.call(ytmp, fymtmp);",
         expect="QUOTIENT:calcJacobian:order2"),
    dict(name="gradient: step built from coordinate 0", arm=True, file=_D,
         old="        const Real hEst = getAccFac(order)*std::max(std::abs(y0[i]), YMin);\n        const Real h = cleanUpH(hEst, y0[i]);\n        Real fyplus, fyminus;",
         new="        const Real hEst = getAccFac(order)*std::max(std::abs(y0[0]), YMin);\n        const Real h = cleanUpH(hEst, y0[0]);\n        Real fyplus, fyminus;", expect="STEP:calcGradient:step-from-the-displaced-coordinate"),
    dict(name="forward formula used for the central method", file=_D,
         old="        if (order==1) {\n            gradf[i] = (fyplus-fy0)/h;", new="        if (order==2) {\n            gradf[i] = (fyplus-fy0)/h;", expect="QUOTIENT:calcGradient"),
    dict(name="seeded (sub-agent): order taken from the caller's raw method argument", file=_D,
         old="    const int order = Differentiator::getMethodOrder(method);\n\n    ytmp = y0;\n    for (int i=0; i < NParameters; ++i) {",
         new="    const int order = Differentiator::getMethodOrder(m);\n\n    ytmp = y0;\n    for (int i=0; i < NParameters; ++i) {", expect="STEP:calcJacobian:order-of-the-resolved-method"),
    dict(name="accuracy factors swapped between the orders", file=_D,
         old="        if (order==1) return AccFac1;\n        if (order==2) return AccFac2;", new="        if (order==1) return AccFac2;\n        if (order==2) return AccFac1;", expect="STEP:getAccFac"),
    dict(name="second-order factor is the square root too", file=_D,
         old="    AccFac2(std::pow(EstimatedAccuracy, OneThird))", new="    AccFac2(std::sqrt(EstimatedAccuracy))", expect="STEP:AccFac2"),
    dict(name="gradient result written to slot 0", file=_D,
         old="            gradf[i] = (fyplus-fy0)/h;", new="            gradf[0] = (fyplus-fy0)/h;", expect="PERTURB:calcGradient:order1:estimate-stored-in-slot-i"),
    dict(name="Jacobian adapter evaluates the base value at a default-constructed point", file=_D,
         old="            Vector fy0(getNumFunctions());\n            diff.nCallsToUserFunction++; call(y0, fy0);",
         new="            Vector fy0(getNumFunctions());\n            const Vector origin(getNumParameters(), Real(0));\n            diff.nCallsToUserFunction++; call(origin, fy0);", expect="BASE:JacobianFunctionRep::calcJacobian"),
    dict(name="work vector not initialised from the evaluation point", file=_D,
         old="    const int order = Differentiator::getMethodOrder(method);\n\n    ytmp = y0;\n    for (int i=0; i < NParameters; ++i) {",
         new="    const int order = Differentiator::getMethodOrder(method);\n\n    for (int i=0; i < NParameters; ++i) {", expect="PERTURB:calcJacobian:work-vector-starts-as-the-evaluation-point"),
]
