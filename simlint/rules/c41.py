"""C41 -- Functions, splines and smooth steps are self-consistent (step family, Step and Sinusoid function objects only).

Splines (GCVSPL), the Polynomial function object's loops and anything evaluated at a point are NOT decided.  The smooth-step
helpers are polynomials written out in the source, and 'reports derivatives that are the true derivatives of its values' is, for them, an
identity between polynomials -- decided here by normalising each helper's return expression to a polynomial in x (exact rational
coefficients) and differentiating:
 STEPPOLY  d/dx stepUp = dstepUp, d/dx dstepUp = d2stepUp, d/dx d2stepUp = d3stepUp (double and float versions); stepUp(0) = 0, stepUp(1) = 1,
           first and second derivative vanish at 0 and 1 (so the step joins its end values twice continuously differentiably); dstepUp is a
           positive constant times a perfect square (monotone); stepDown = 1 - stepUp and its derivatives are the negatives.
 CHAIN     stepAny = y0 + yRange * stepUp((x - x0) * oneOverXRange) and its k-th derivative is yRange * oneOverXRange^k * (k-th derivative of
           stepUp) at the same adjusted argument -- the chain-rule power equals the derivative order.
 TABLE     Function_<T>::Step returns y0 / y1 outside the transition and zero derivatives there, y0 + yr * stepAny(0, 1, x0, 1/(x1-x0), x)
           inside, and for derivative order k the k-th stepAny derivative times yr; Function::Sinusoid's order-k derivative is
           (+,+,-,-)[k mod 4] * a * w^k * (sin, cos)[k mod 2](w t + p) in every explicit case, and the general branch builds the same three
           factors from the order.
 LINEAR    Function_<T>::Constant returns its stored constant and zero for every derivative; Function_<T>::Linear's value is
           sum_i x[i]*c[i] + c[x.size()] (same index on both factors, index from 0 below x.size(), accumulator from zero), its first derivative
           with respect to component k is c[k] and every higher derivative is zero."""
from fractions import Fraction
from ..facts import extract, units_matching, Program, sx_find, sx_str
from ..match import call_args, var_of, field_of, expand_locals, value_sets
from ..columns import _lit

UNITS_STEP = r"SimTKcommon/src/PrivateInstantiations\.cpp$"
HDR_STEP = r"Scalar/include/SimTKcommon/Scalar\.h$"
UNITS_FN = r"SimTKmath/src/Differentiator\.cpp$"
HDR_FN = r"include/SimTKcommon/internal/Function\.h$"


def _strip(x):
    while isinstance(x, list) and x and x[0] in ("cast", "conv", "paren"):
        x = x[2] if x[0] == "cast" else x[1]
    return x


# ---- polynomials in one variable: {power: Fraction}
def p_add(a, b, s=1):
    r = dict(a)
    for k, v in b.items():
        r[k] = r.get(k, 0) + s * v
    return {k: v for k, v in r.items() if v != 0}


def p_mul(a, b):
    r = {}
    for i, u in a.items():
        for j, v in b.items():
            r[i + j] = r.get(i + j, 0) + u * v
    return {k: v for k, v in r.items() if v != 0}


def p_diff(a):
    return {k - 1: v * k for k, v in a.items() if k != 0}


def p_eval(a, x):
    return sum(v * Fraction(x) ** k for k, v in a.items())


def p_str(a):
    return " + ".join("%s x^%d" % (v, k) for k, v in sorted(a.items())) or "0"


def poly(f, x, xv, depth=6):
    """return-expression x of function f as a polynomial in the parameter xv; None if it is not one"""
    x = _strip(x)
    if depth <= 0 or not isinstance(x, list) or not x:
        return None
    if x[0] == "lit":
        try:
            return {0: Fraction(str(x[1]).rstrip("fFlL"))} if Fraction(str(x[1]).rstrip("fFlL")) != 0 else {}
        except (ValueError, ZeroDivisionError):
            return None
    if x[0] == "var":
        if x[1] == xv:
            return {1: Fraction(1)}
        y = expand_locals(f, x, depth=1)
        return poly(f, y, xv, depth - 1) if y != x else None
    if x[0] == "un" and x[1] == "-" and len(x) == 3:
        a = poly(f, x[2], xv, depth - 1)
        return None if a is None else {k: -v for k, v in a.items()}
    if x[0] == "op" and len(x) == 4 and x[1] in ("+", "-", "*"):
        a, b = poly(f, x[2], xv, depth), poly(f, x[3], xv, depth)
        if a is None or b is None:
            return None
        return p_add(a, b) if x[1] == "+" else (p_add(a, b, -1) if x[1] == "-" else p_mul(a, b))
    return None


def _ret(f):
    rs = [r for _, _, r in f.events(lambda q: q["k"] == "ret")]
    return rs[0].get("val") if len(rs) == 1 else None


def steppoly(chk, P):
    chk.rule("STEPPOLY", "the smooth-step helpers as polynomials: each derivative helper is the derivative of the one before; value 0 at 0 and 1 at 1; first and second derivative "
             "0 at both ends; first derivative a positive multiple of a perfect square; the Down versions are 1 - Up and the negatives")
    for ty in ("double", "float"):
        fn = {}
        for n in ("stepUp", "dstepUp", "d2stepUp", "d3stepUp", "stepDown", "dstepDown", "d2stepDown", "d3stepDown"):
            fs = [f for f in P.all_fns() if f.name == "SimTK::" + n and f.blocks and [p_[1] for p_ in f.d["params"]] == [ty]]
            if chk.shape(len(fs) == 1, "STEPPOLY", "%s(%s):found" % (n, ty), "", "%d" % len(fs)):
                fn[n] = fs[0]
        ups = {}
        for n in ("stepUp", "dstepUp", "d2stepUp", "d3stepUp"):
            if n in fn:
                p = poly(fn[n], _ret(fn[n]), fn[n].d["params"][0][0])
                if chk.shape(p is not None, "STEPPOLY", "%s(%s):polynomial" % (n, ty), fn[n].loc, "return expression normalises to a polynomial"):
                    ups[n] = p
        chain = ["stepUp", "dstepUp", "d2stepUp", "d3stepUp"]
        for a, b in zip(chain, chain[1:]):
            if a in ups and b in ups:
                chk.judge(p_diff(ups[a]) == ups[b], "STEPPOLY", "%s(%s)=d/dx %s" % (b, ty, a), fn[b].loc, "%s: %s;  d/dx %s: %s" % (b, p_str(ups[b]), a, p_str(p_diff(ups[a]))))
        if "stepUp" in ups:
            chk.judge(p_eval(ups["stepUp"], 0) == 0 and p_eval(ups["stepUp"], 1) == 1, "STEPPOLY", "stepUp(%s):0->0,1->1" % ty, fn["stepUp"].loc, p_str(ups["stepUp"]))
        for n in ("dstepUp", "d2stepUp"):
            if n in ups:
                chk.judge(p_eval(ups[n], 0) == 0 and p_eval(ups[n], 1) == 0, "STEPPOLY", "%s(%s):vanishes-at-both-ends" % (n, ty), fn[n].loc, p_str(ups[n]))
        if "dstepUp" in ups:
            chk.judge(_pos_square(ups["dstepUp"]), "STEPPOLY", "dstepUp(%s):positive-multiple-of-a-square" % ty, fn["dstepUp"].loc, p_str(ups["dstepUp"]))
        # Down versions
        for k, (d, u) in enumerate((("stepDown", "stepUp"), ("dstepDown", "dstepUp"), ("d2stepDown", "d2stepUp"), ("d3stepDown", "d3stepUp"))):
            if d not in fn:
                continue
            r = _strip(_ret(fn[d]))
            xv = fn[d].d["params"][0][0]
            callu = lambda y: isinstance(_strip(y), list) and _strip(y)[:1] == ["call"] and str(_strip(y)[1]) == "SimTK::" + u and [_strip(z) for z in _strip(y)[3]] == [["var", xv]]
            if k == 0:
                ok = isinstance(r, list) and r[:2] == ["op", "-"] and _lit(r[2], ("1", "1.0", "1.0f", "1.")) and callu(r[3])
            else:
                ok = isinstance(r, list) and r[:2] == ["un", "-"] and callu(r[2])
            chk.judge(ok, "STEPPOLY", "%s(%s)=%s%s" % (d, ty, "1-" if k == 0 else "-", u), fn[d].loc, sx_str(r))
    chk.floor("STEPPOLY", 30)


def _pos_square(p):
    """p = c * s(x)^2 with c > 0 (exact polynomial square root over the rationals)"""
    if not p:
        return False
    deg = max(p)
    if deg % 2:
        return False
    c = p[deg]
    if c <= 0:
        return False
    q = {k: v / c for k, v in p.items()}          # monic
    n = deg // 2
    s = {n: Fraction(1)}
    for k in range(n - 1, -1, -1):                # match coefficients from the top
        sq = p_mul(s, s)
        need = q.get(n + k, 0) - sq.get(n + k, 0)
        s[k] = need / 2
        if s[k] == 0:
            del s[k]
    return p_mul(s, s) == q


def chain(chk, P):
    chk.rule("CHAIN", "stepAny and its derivatives: same adjusted argument (x - x0) * oneOverXRange; k-th derivative = yRange * oneOverXRange^k * k-th derivative of stepUp")
    for ty in ("double", "float"):
        for k, (n, inner) in enumerate((("stepAny", "stepUp"), ("dstepAny", "dstepUp"), ("d2stepAny", "d2stepUp"), ("d3stepAny", "d3stepUp"))):
            fs = [f for f in P.all_fns() if f.name == "SimTK::" + n and f.blocks and f.d["params"][0][1] == ty]
            if not chk.shape(len(fs) == 1, "CHAIN", "%s(%s):found" % (n, ty), "", "%d" % len(fs)):
                continue
            f = fs[0]
            ps = [p_[0] for p_ in f.d["params"]]
            if k == 0:
                y0, yr, x0, oo, xv = ps
            else:
                y0 = None
                yr, x0, oo, xv = ps
            r = _strip(_ret(f))
            # adjusted argument
            ad = [d for _, _, d in f.events(lambda q: q["k"] == "decl" and isinstance(q.get("init"), list))]
            adj = [d for d in ad if _is_adj(d["init"], xv, x0, oo)]
            inner_calls = sx_find(r, lambda y: y[0] == "call" and str(y[1]) == "SimTK::" + inner)
            okarg = len(adj) == 1 and len(inner_calls) == 1 and [_strip(z) for z in inner_calls[0][3]] == [["var", adj[0]["var"]]]
            chk.judge(okarg, "CHAIN", "%s(%s):%s-at-(x-x0)*oneOverXRange" % (n, ty, inner), f.loc, sx_str(r)[:90])
            # factors
            body = r
            if k == 0:
                ok0 = isinstance(r, list) and r[:2] == ["op", "+"] and _strip(r[2]) == ["var", y0]
                body = _strip(r[3]) if ok0 else None
            else:
                ok0 = True
            cnt = _factors(body) if body is not None else None
            okf = ok0 and cnt is not None and cnt.get(("var", yr)) == 1 and cnt.get(("var", oo), 0) == k and cnt.get(("call", inner)) == 1 and \
                sum(cnt.values()) == 2 + k
            chk.judge(okf, "CHAIN", "%s(%s):yRange*oneOverXRange^%d*%s" % (n, ty, k, inner), f.loc, "factors %s" % (dict(cnt) if cnt else None))
    chk.floor("CHAIN", 16)


def _is_adj(x, xv, x0, oo):
    x = _strip(x)
    if not (isinstance(x, list) and x[:2] == ["op", "*"]):
        return False
    a, b = _strip(x[2]), _strip(x[3])
    for u, v in ((a, b), (b, a)):
        if v == ["var", oo] and isinstance(u, list) and u[:2] == ["op", "-"] and _strip(u[2]) == ["var", xv] and _strip(u[3]) == ["var", x0]:
            return True
    return False


def _factors(x):
    """multiset of the factors of a product: ('var', name), ('call', short name); square(v) / cube(v) count twice / three times"""
    x = _strip(x)
    out = {}

    def add(k, n=1):
        out[k] = out.get(k, 0) + n
    if isinstance(x, list) and len(x) == 4 and x[0] in ("op", "opc") and x[1] == "*":
        for y in (x[2], x[3]):
            sub = _factors(y)
            if sub is None:
                return None
            for k, n in sub.items():
                add(k, n)
        return out
    if isinstance(x, list) and x[:1] == ["var"]:
        add(("var", x[1]))
        return out
    if isinstance(x, list) and x[:1] == ["mem"]:
        add(("var", str(x[2]).split("::")[-1]))
        return out
    if isinstance(x, list) and x[:1] == ["call"]:
        nm = str(x[1]).split("::")[-1]
        args = x[3] if len(x) > 3 and isinstance(x[3], list) else []
        if nm in ("square", "cube") and len(args) == 1:
            sub = _factors(args[0])
            if sub is None:
                return None
            for k, n in sub.items():
                add(k, n * (2 if nm == "square" else 3))
            return out
        add(("call", nm))
        return out
    if isinstance(x, list) and x[:2] == ["un", "-"]:
        sub = _factors(x[2])
        if sub is None:
            return None
        for k, n in sub.items():
            add(k, n)
        add(("sign", "-"))
        return out
    return None


def _order_cases(f, ordv):
    """ordv: name of the local holding the derivative order, or a predicate recognising the expression that is the order.
    {k: block} for the blocks that return while the derivative order is known to be exactly the literal k (switch case or if-chain),
    and the set of blocks where it is known to be none of the explicitly handled literals"""
    lits = set()
    isord = ordv if callable(ordv) else (lambda x: _strip(x) == ["var", ordv])
    for b, blk in f.blocks.items():
        t = blk.get("term")
        if t and isinstance(t.get("cond"), list):
            for y in sx_find(t["cond"], lambda y: y[0] == "op" and len(y) == 4 and y[1] in ("==", "!=") and isord(y[2]) and _strip(y[3])[:1] == ["lit"]):
                lits.add(str(_strip(y[3])[1]))
        lab = blk.get("case")
        if isinstance(lab, list) and lab[:1] == ["lit"]:
            lits.add(str(lab[1]))
    uni = set(lits) | {"<other>"}
    VS = value_sets(f, isord, uni)
    cases, other = {}, set()
    for b, blk in f.blocks.items():
        if not any(q["k"] == "ret" for q in blk["ev"]):
            continue
        vs = VS.get(b, set())
        if len(vs) == 1 and next(iter(vs)) != "<other>":
            cases[int(next(iter(vs)))] = b
        elif vs == {"<other>"}:
            other.add(b)
    return cases, other


def tables(chk, P):
    chk.rule("TABLE", "Function::Sinusoid: order-k derivative = (+,+,-,-)[k mod 4] a w^k (sin,cos)[k mod 2](w t + p) in every explicit case, the general branch builds the same "
             "factors from the order; Function_<T>::Step: end values and zero derivatives outside the transition, stepAny inside, the k-th stepAny derivative for order k")
    # ---- Sinusoid
    fs = [f for f in P.all_fns() if f.name.endswith("Sinusoid::calcDerivative") and f.blocks and "Array_" in f.id]
    if chk.shape(len(fs) == 1, "TABLE", "Sinusoid::calcDerivative:found", "", "%d" % len(fs)):
        f = fs[0]
        seen = 0
        ordv0 = [d["var"] for _, _, d in f.events(lambda q: q["k"] == "decl" and isinstance(q.get("init"), list) and bool(sx_find(q["init"], lambda y: y[0] == "call" and str(y[1]).endswith("::size"))))]
        cases_, other_ = _order_cases(f, ordv0[0]) if len(ordv0) == 1 else ({}, set())
        for k, b in sorted(cases_.items()):
            blk = f.blocks[b]
            rs = [q for q in blk["ev"] if q["k"] == "ret"]
            if not rs:
                continue
            seen += 1
            cnt = _factors(expand_locals(f, rs[0]["val"]))
            want_trig = "sin" if k % 2 == 0 else "cos"
            want_neg = k % 4 in (2, 3)
            ok = cnt is not None and cnt.get(("var", "a")) == 1 and cnt.get(("var", "w"), 0) == k and cnt.get(("call", want_trig)) == 1 and \
                (cnt.get(("sign", "-"), 0) % 2 == 1) == want_neg and sum(v for kk, v in cnt.items() if kk[0] != "sign") == 2 + k
            trig = sx_find(rs[0]["val"], lambda y: y[0] == "call" and str(y[1]).split("::")[-1] in ("sin", "cos"))
            okarg = len(trig) == 1 and _phase(f, trig[0][3][0])
            chk.judge(ok and okarg, "TABLE", "Sinusoid:order-%d" % k, "%s:%d" % (f.file, rs[0]["line"]), "factors %s" % (dict(cnt) if cnt else None))
        chk.shape(seen >= 3, "TABLE", "Sinusoid:explicit-cases", f.loc, "%d" % seen)
        # general branch
        dfl = sorted(other_)
        decls = {d["var"]: d["init"] for _, _, d in f.events(lambda q: q["k"] == "decl" and q.get("init") is not None)}
        ordv = [v for v, i in decls.items() if isinstance(i, list) and sx_find(i, lambda y: y[0] == "call" and str(y[1]).endswith("::size"))]
        okg = False
        if dfl and len(ordv) == 1:
            ov = ordv[0]
            rets = [r for _, _, r in f.events(lambda q: q["k"] == "ret") if sx_find(r.get("val"), lambda y: y[0] == "var" and y[1] in decls and y[1] not in (ov, "t"))]
            if len(rets) == 1:
                cnt = _factors(rets[0]["val"])
                names = [k_[1] for k_ in cnt] if cnt else []
                sg = [v for v in names if v in decls and _is_sign(decls[v], ov)]
                sc = [v for v in names if v in decls and _is_trigsel(f, decls[v], ov)]
                wn = [v for v in names if v in decls and _is_wpow(decls[v], ov)]
                okg = cnt is not None and len(sg) == 1 and len(sc) == 1 and len(wn) == 1 and cnt.get(("var", "a")) == 1 and sum(cnt.values()) == 4
        chk.judge(okg, "TABLE", "Sinusoid:general-order", f.loc, "sign(order) * a * pow(w, order) * (order odd ? cos : sin)(w t + p)")
    fs = [f for f in P.all_fns() if f.name.endswith("Sinusoid::calcValue") and f.blocks]
    if chk.shape(len(fs) == 1, "TABLE", "Sinusoid::calcValue:found", "", "%d" % len(fs)):
        f = fs[0]
        r = _ret(f)
        cnt = _factors(expand_locals(f, r))
        trig = sx_find(r, lambda y: y[0] == "call" and str(y[1]).split("::")[-1] in ("sin", "cos"))
        chk.judge(cnt is not None and cnt.get(("var", "a")) == 1 and cnt.get(("call", "sin")) == 1 and sum(cnt.values()) == 2 and len(trig) == 1 and _phase(f, trig[0][3][0]),
                  "TABLE", "Sinusoid:value=a*sin(w*t+p)", f.loc, sx_str(r))
    # ---- Step
    fs = [f for f in P.all_fns() if f.name.endswith("Step::calcDerivative") and f.blocks and "Array_" in f.id]
    if chk.shape(len(fs) == 1, "TABLE", "Step::calcDerivative:found", "", "%d" % len(fs)):
        f = fs[0]
        seen = 0
        ordv1 = [d["var"] for _, _, d in f.events(lambda q: q["k"] == "decl" and isinstance(q.get("init"), list) and bool(sx_find(q["init"], lambda y: y[0] in ("call", "dcall") and str(y[1]).split("::")[-1] == "size")))]
        cases1, _o = _order_cases(f, ordv1[0]) if len(ordv1) == 1 else ({}, set())
        for k, b in sorted(cases1.items()):
            blk = f.blocks[b]
            rs = [q for q in blk["ev"] if q["k"] == "ret"]
            if not rs:
                continue
            seen += 1
            want = {1: "dstepAny", 2: "d2stepAny", 3: "d3stepAny"}.get(k)
            cs = sx_find(rs[0]["val"], lambda y: y[0] in ("call", "dcall") and str(y[1]).split("::")[-1].endswith("stepAny"))
            ok = want is not None and len(cs) == 1 and str(cs[0][1]).split("::")[-1] == want
            if ok:
                a = cs[0][3] if cs[0][0] == "call" else cs[0][-1]
                ok = len(a) == 4 and _lit(a[0], ("1",)) and _memname(a[1]) == "m_x0" and _memname(a[2]) == "m_ooxr"
                cnt = _factors(rs[0]["val"])
                ok = ok and cnt is not None and cnt.get(("var", "m_yr")) == 1 and sum(cnt.values()) == 2
            chk.judge(ok, "TABLE", "Step:derivative-order-%d" % k, "%s:%d" % (f.file, rs[0]["line"]), sx_str(rs[0]["val"])[:90])
        chk.shape(seen == 3, "TABLE", "Step:derivative-cases", f.loc, "%d" % seen)
        zeros = [r for _, _, r in f.events(lambda q: q["k"] == "ret") if _memname(r.get("val")) == "m_zero"]
        chk.judge(len(zeros) == 2, "TABLE", "Step:zero-derivative-outside-the-transition", f.loc, "%d early returns of m_zero" % len(zeros))
    fs = [f for f in P.all_fns() if f.name.endswith("Step::calcValue") and f.blocks]
    if chk.shape(len(fs) == 1, "TABLE", "Step::calcValue:found", "", "%d" % len(fs)):
        f = fs[0]
        rets = [r for _, _, r in f.events(lambda q: q["k"] == "ret")]
        ends = sorted(_memname(r.get("val")) or "" for r in rets if _memname(r.get("val")))
        inner = [r for r in rets if not _memname(r.get("val"))]
        ok = ends == ["m_y0", "m_y1"] and len(inner) == 1
        if ok:
            v = expand_locals(f, inner[0]["val"])
            cs = sx_find(v, lambda y: y[0] in ("call", "dcall") and str(y[1]).split("::")[-1] == "stepAny")
            ok = len(cs) == 1
            if ok:
                a = cs[0][3] if cs[0][0] == "call" else cs[0][-1]
                ok = len(a) == 5 and _lit(a[0], ("0",)) and _lit(a[1], ("1",)) and _memname(a[2]) == "m_x0" and _memname(a[3]) == "m_ooxr"
            r = _strip(v)
            ok = ok and isinstance(r, list) and r[:2] in (["op", "+"], ["opc", "+"]) and _memname(r[2]) == "m_y0" and bool(sx_find(r[3], lambda y: _memname(y) == "m_yr"))
        chk.judge(ok, "TABLE", "Step:value=y0+yr*stepAny(0,1,x0,1/(x1-x0),x)-between-the-end-values", f.loc, "")
    chk.floor("TABLE", 12)


def _zero(x):
    x = _strip(x)
    while isinstance(x, list) and (x[:1] == ["cast"] or (x[:1] == ["ctor"] and len(x) == 3 and len(x[2]) == 1)):
        x = _strip(x[-1] if x[0] == "cast" else x[2][0])
    return isinstance(x, list) and x[:1] == ["lit"] and str(x[1]) in ("0", "0.0", "0.")


def _coef_at(x, fld):
    """index expression of  this.<fld>[e] / this.<fld>(e), else None"""
    x = _strip(x)
    if not isinstance(x, list):
        return None
    if x[0] == "idx" and _memname(x[1]) == fld:
        return x[2]
    if x[0] in ("opc", "op") and x[1] in ("[]", "()") and _memname(x[2]) == fld and len(x) == 4:
        return x[3]
    if x[0] == "call" and str(x[1]).split("::")[-1] == fld and len(x) > 3 and len(x[3]) == 1:
        return x[3][0]
    return None


def _size_of(x, v, decls=None):
    x = _strip(x)
    n = 4
    while decls and n and isinstance(x, list) and x[:1] == ["var"] and isinstance(decls.get(x[1]), list):
        x, n = _strip(decls[x[1]]), n - 1
    while isinstance(x, list) and x[:1] == ["cast"]:
        x = _strip(x[-1])
    return isinstance(x, list) and x[0] in ("call", "dcall") and str(x[1]).split("::")[-1] == "size" and sx_find(x, lambda y: y == ["var", v]) != []


def linear(chk, P):
    chk.rule("LINEAR", "Function_<T>::Constant: value is the stored constant, every derivative is zero; Function_<T>::Linear: value = sum_i x[i]*c[i] + c[x.size()], "
             "the first derivative with respect to component k is c[k] -- the coefficient that multiplies x[k] in the value -- and every higher derivative is zero")
    def one(suffix, arr=False):
        fs = [f for f in P.all_fns() if f.name.endswith(suffix) and f.blocks and (not arr or "Array_" in f.id)]
        return fs[0] if chk.shape(len(fs) == 1, "LINEAR", suffix + ":found", "", "%d" % len(fs)) else None
    f = one("Constant::calcValue")
    if f:
        rets = [r for _, _, r in f.events(lambda q: q["k"] == "ret")]
        chk.judge(len(rets) >= 1 and all(_memname(r.get("val")) == "value" for r in rets), "LINEAR", "Constant:value=stored-constant", f.loc, "")
    f = one("Constant::calcDerivative", True)
    if f:
        rets = [r for _, _, r in f.events(lambda q: q["k"] == "ret")]
        chk.judge(len(rets) >= 1 and all(_zero(r.get("val")) for r in rets), "LINEAR", "Constant:every-derivative-zero", f.loc, "; ".join(sx_str(r.get("val")) for r in rets)[:90])
    f = one("Linear::calcValue")
    cidx = None
    if f:
        dl = {}
        for _, _, d in f.events(lambda d: d["k"] == "decl"):
            dl[d["var"]] = d.get("init") if d["var"] not in dl else None       # single-declaration locals only
        for _, _, q in f.events(lambda q: q["k"] == "assign" and isinstance(q.get("lhs"), list) and q["lhs"][:1] == ["var"]):
            dl[q["lhs"][1]] = None                                             # ... that are never reassigned
        acc = [q for _, _, q in f.events(lambda q: q["k"] == "assign" and q.get("op") == "+=" and q.get("lhs") == ["var", "value"])]
        prods, consts = [], []
        for q in acc:
            r = _strip(q["rhs"])
            if isinstance(r, list) and r[0] in ("op", "opc") and r[1] == "*" and len(r) == 4:
                prods.append((q, r))
            else:
                consts.append((q, r))
        ok = len(prods) == 1 and len(consts) == 1
        if ok:
            q, r = prods[0]
            xs = [a for a in (r[2], r[3]) if isinstance(_strip(a), list) and _strip(a)[0] in ("op", "opc") and _strip(a)[1] == "[]" and _strip(a)[2] == ["var", "x"]]
            cs = [_coef_at(a, "coefficients") for a in (r[2], r[3]) if _coef_at(a, "coefficients") is not None]
            ok = len(xs) == 1 and len(cs) == 1 and _strip(xs[0])[3] == cs[0] and cs[0][:1] == ["var"]
            cidx = cs[0] if ok else None
            # the loop runs the index over 0 .. x.size()-1
            iv = cs[0][1] if ok else None
            conds = [blk["term"]["cond"] for blk in f.blocks.values() if blk.get("term") and blk["term"].get("k") == "for"]
            decl0 = [d for _, _, d in f.events(lambda d: d["k"] == "decl" and d.get("var") == iv)]
            ok = ok and len(conds) == 1 and conds[0][:2] == ["op", "<"] and conds[0][2] == ["var", iv] and _size_of(conds[0][3], "x", dl) and len(decl0) == 1 and _zero(decl0[0].get("init"))
            k0 = _coef_at(consts[0][1], "coefficients")
            ok = ok and k0 is not None and _size_of(k0, "x", dl)
        chk.judge(ok, "LINEAR", "Linear:value=sum(x[i]*c[i],i<x.size())+c[x.size()]", f.loc, "%d products, %d other terms" % (len(prods), len(consts)))
        v0 = [d for _, _, d in f.events(lambda d: d["k"] == "decl" and d.get("var") == "value")]
        chk.judge(len(v0) == 1 and _zero(v0[0].get("init")), "LINEAR", "Linear:accumulator-starts-at-zero", f.loc, "")
    f = one("Linear::calcDerivative", True)
    if f:
        dc = "derivComponents"
        cases_, other_ = _order_cases(f, lambda x: _size_of(x, dc))
        rets = {b: [q for q in blk["ev"] if q["k"] == "ret"] for b, blk in f.blocks.items()}
        b1 = cases_.get(1)
        ok1 = b1 is not None and len(rets[b1]) == 1
        if ok1:
            e = _coef_at(rets[b1][0]["val"], "coefficients")
            e = _strip(e) if e is not None else None
            ok1 = isinstance(e, list) and e[0] in ("op", "opc") and e[1] == "[]" and e[2] == ["var", dc] and _zero(e[3])
        chk.judge(ok1, "LINEAR", "Linear:first-derivative=c[derivComponents[0]]", f.loc, sx_str(rets[b1][0]["val"])[:80] if b1 is not None and rets[b1] else "no block for order 1")
        oth = [r for b in other_ for r in rets[b]]
        allr = [r for rs in rets.values() for r in rs]
        chk.judge(len(oth) >= 1 and all(_zero(r["val"]) for r in oth) and len(allr) == len(oth) + (1 if ok1 else 0),
                  "LINEAR", "Linear:higher-derivatives-zero", f.loc, "%d returns for other orders, %d returns in all" % (len(oth), len(allr)))
    chk.floor("LINEAR", 6)


def _memname(x):
    x = _strip(x)
    if isinstance(x, list) and x[:1] in (["mem"], ["dmem"]):
        return str(x[2]).split("::")[-1]
    return None


def _phase(f, x):
    """x is w*t + p with t the time argument"""
    x = _strip(expand_locals(f, x))
    if not (isinstance(x, list) and x[:2] == ["op", "+"]):
        return False
    a, b = _strip(x[2]), _strip(x[3])
    for u, v in ((a, b), (b, a)):
        if _memname(v) == "p" and isinstance(u, list) and u[:2] == ["op", "*"] and "w" in (_memname(u[2]), _memname(u[3])):
            return True
    return False


def _is_sign(init, ov):
    c = sx_find(init, lambda y: y[0] == "cond")
    if len(c) != 1:
        return False
    c = c[0]
    test = sx_find(c[1], lambda y: y[0] == "op" and y[1] == "&" and _lit(y[3], ("1", "0x1")) and bool(sx_find(y[2], lambda z: z[0] == "op" and z[1] == "/" and _strip(z[2]) == ["var", ov] and _lit(z[3], ("2",)))))
    neg = _strip(c[2])
    return bool(test) and isinstance(neg, list) and ((neg[:2] == ["un", "-"] and _lit(neg[2], ("1",))) or _lit(neg, ("-1",))) and _lit(c[3], ("1",))


def _is_trigsel(f, init, ov):
    c = _strip(init)
    if not (isinstance(c, list) and c[:1] == ["cond"]):
        return False
    test = _strip(c[1])
    odd = isinstance(test, list) and test[:2] == ["op", "&"] and _strip(test[2]) == ["var", ov] and _lit(test[3], ("1", "0x1"))
    t1, t2 = _strip(c[2]), _strip(c[3])
    nm = lambda y: str(y[1]).split("::")[-1] if isinstance(y, list) and y[:1] == ["call"] else None
    return odd and nm(t1) == "cos" and nm(t2) == "sin" and _phase(f, t1[3][0]) and _phase(f, t2[3][0])


def _is_wpow(init, ov):
    c = _strip(init)
    return isinstance(c, list) and c[:1] == ["call"] and str(c[1]).split("::")[-1] == "pow" and _memname(c[3][0]) == "w" and _strip(c[3][1]) == ["var", ov]


def derived(chk, P):
    chk.rule("DERIVED", "Function_<T>::Step caches quantities derived from its parameters (range, reciprocal interval, direction, typed zero): every constructor or method that "
             "sets a parameter field also sets every cached field derived from it, so a re-targeted Step equals a freshly built one")
    cls = "SimTK::Function_::Step"
    fns = [f for f in P.all_fns() if f.name.startswith(cls + "::") and f.blocks and (f.kind == "ctor" or not f.d.get("const"))]
    defs = {}          # function id -> {field: expression}
    for f in fns:
        dd = {}
        for it in f.d.get("inits", []) or []:
            if it.get("field") and it.get("written"):
                dd[it["field"]] = it["init"]
        for _, _, q in f.events(lambda q: q["k"] == "assign" and isinstance(q["lhs"], list) and q["lhs"][:1] in (["mem"], ["dmem"]) and q["op"] == "="):
            r = q["rhs"]
            while isinstance(r, list) and r[:1] == ["op"] and r[1] == "=":
                r = r[3]
            dd[q["lhs"][2]] = r
        defs[f.id] = dd
    writers = {fid: set(dd) for fid, dd in defs.items()}
    # writes through same-class callees (the constructor that calls setParameters)
    for f in fns:
        for _, _, e in f.calls():
            nm = str(e.get("fn", ""))
            for g in fns:
                if g is not f and (g.name == nm or g.name.split("::")[-1] == nm.split("::")[-1]) and g.kind != "ctor":
                    writers[f.id] |= set(defs[g.id])
    # sources: fields defined as exactly a parameter; dependencies of the others
    source_of = {}     # (function id, parameter) -> field
    deps = {}
    for f in fns:
        ps = {p_[0] for p_ in f.d["params"]}
        for fld, ex in defs[f.id].items():
            e_ = _strip(ex)
            if isinstance(e_, list) and e_[:1] == ["var"] and e_[1] in ps:
                source_of[(f.id, e_[1])] = fld
    for f in fns:
        ps = {p_[0] for p_ in f.d["params"]}
        for fld, ex in defs[f.id].items():
            e_ = _strip(ex)
            if isinstance(e_, list) and e_[:1] == ["var"] and e_[1] in ps:
                continue
            srcs = {source_of[(f.id, y[1])] for y in sx_find(ex, lambda y: y[0] == "var" and (f.id, y[1]) in source_of)}
            srcs |= {y[2] for y in sx_find(ex, lambda y: y[0] in ("mem", "dmem") and isinstance(y[2], str) and y[2].startswith(cls + "::"))}
            if srcs:
                deps.setdefault(fld, set()).update(srcs)
    # transitive closure onto parameter fields
    sources = set(source_of.values())

    def roots(fld, seen=()):
        out = set()
        for s_ in deps.get(fld, ()):
            if s_ in sources:
                out.add(s_)
            elif s_ not in seen:
                out |= roots(s_, seen + (fld,))
        return out
    chk.shape(len(sources) >= 4 and len(deps) >= 3, "DERIVED", "Step:parameter-and-derived-fields", "", "parameters %s; derived %s" % (sorted(x.split("::")[-1] for x in sources), sorted(x.split("::")[-1] for x in deps)))
    n = 0
    for f in fns:
        setsrc = {fld for fld in writers[f.id] if fld in sources}
        if not setsrc:
            continue
        for d_ in sorted(deps):
            need = roots(d_) & setsrc
            if not need:
                continue
            n += 1
            chk.judge(d_ in writers[f.id], "DERIVED", "%s:%s-recomputed-with-%s" % (f.name.split("::")[-1] + ("(ctor)" if f.kind == "ctor" else ""), d_.split("::")[-1], "+".join(sorted(x.split("::")[-1] for x in need))), f.loc,
                      "%s sets %s but leaves the cached %s as it was" % (f.name.split("::")[-1], sorted(x.split("::")[-1] for x in need), d_.split("::")[-1]))
    # a cached field that is read by the evaluation routines but set by no constructor or setter at all
    allw = set()
    for w_ in writers.values():
        allw |= w_
    reads = set()
    for g in P.all_fns():
        if g.name.startswith(cls + "::") and g.blocks and g.kind != "ctor":
            for _, _, q in g.events(lambda q: q["k"] == "mem" and q.get("acc") == "r" and str(q.get("field", "")).startswith(cls + "::")):
                reads.add(q["field"])
    never = sorted(x.split("::")[-1] for x in reads - allw)
    chk.judge(not never, "DERIVED", "Step:every-field-that-is-read-is-set-by-a-constructor-or-setter", "", "read but never set: %s" % never)
    chk.floor("DERIVED", 6)


def run(chk, tier, overlays=()):
    u1 = units_matching(UNITS_STEP)
    P1 = Program(extract(u1, hdr=HDR_STEP, overlays=overlays))
    u2 = units_matching(UNITS_FN)
    P2 = Program(extract(u2, hdr=HDR_FN, overlays=overlays))
    chk.units += u1 + u2
    chk.nfunctions += len(P1.fns) + len(P2.fns)
    steppoly(chk, P1)
    chain(chk, P1)
    tables(chk, P2)
    derived(chk, P2)
    linear(chk, P2)


_S = "SimTKcommon/Scalar/include/SimTKcommon/Scalar.h"
_FN = "SimTKcommon/include/SimTKcommon/internal/Function.h"
MUTATIONS = [
    dict(name="d2stepUp with the cubic coefficient of the quartic", arm=True, file=_S,
         old="inline double d2stepUp(double x) {\n    assert(0 <= x && x <= 1);\n    return 60*x*(1+x*(2*x-3));", new="inline double d2stepUp(double x) {\n    assert(0 <= x && x <= 1);\n    return 60*x*(1+x*(2*x-2));",
         expect="STEPPOLY:d2stepUp(double)"),
    dict(name="stepUp with 16x^4", file=_S,
         old="inline double stepUp(double x)\n{   assert(0 <= x && x <= 1);\n    return x*x*x*(10+x*(6*x-15)); }", new="inline double stepUp(double x)\n{   assert(0 <= x && x <= 1);\n    return x*x*x*(10+x*(6*x-16)); }",
         expect="STEPPOLY"),
    dict(name="second derivative of stepAny scaled by one power of 1/xRange", arm=True, file=_S,
         old="    return yRange*square(oneOverXRange)*d2stepUp(xadj); }\n\n/** Third derivative of stepUp()", new="    return yRange*oneOverXRange*d2stepUp(xadj); }\n\n/** Third derivative of stepUp()",
         expect="CHAIN:d2stepAny(double)"),
    dict(name="float dstepDown returns +dstepUp", file=_S,
         old="inline float dstepDown(float x) {return -dstepUp(x);}", new="inline float dstepDown(float x) {return dstepUp(x);}", expect="STEPPOLY:dstepDown(float)"),
    dict(name="Sinusoid third derivative with the sign of the first", arm=True, file=_FN,
         old="        case 3: return -a*w*w*w*std::cos(w*t + p);", new="        case 3: return  a*w*w*w*std::cos(w*t + p);", expect="TABLE:Sinusoid:order-3"),
    dict(name="Sinusoid second derivative with one power of w", file=_FN,
         old="        case 2: return -a*w*w*  std::sin(w*t + p);", new="        case 2: return -a*w*    std::sin(w*t + p);", expect="TABLE:Sinusoid:order-2"),
    dict(name="Sinusoid general order: sign from order & 1", file=_FN,
         old="            const Real sign = Real(((order/2) & 0x1) ? -1 : 1);", new="            const Real sign = Real((order & 0x1) ? -1 : 1);", expect="TABLE:Sinusoid:general-order"),
    dict(name="seeded (sub-agent): setParameters no longer refreshes the cached direction", file=_FN,
         old="        m_x0 = x0; m_x1 = x1; m_ooxr = 1/(x1-x0); m_sign = sign(m_ooxr); ", new="        m_x0 = x0; m_x1 = x1; m_ooxr = 1/(x1-x0); ", expect="DERIVED"),
    dict(name="Linear reports its first-derivative coefficient for every order", file=_FN,
         old="        if (derivComponents.size() == 1)\n            return coefficients(derivComponents[0]);\n        return static_cast<T>(0);", new="        return coefficients(derivComponents[0]);", expect="LINEAR:Linear:higher-derivatives-zero"),
    dict(name="Linear derivative indexed by the number of derivative components", file=_FN,
         old="            return coefficients(derivComponents[0]);", new="            return coefficients(derivComponents.size());", expect="LINEAR:Linear:first-derivative"),
    dict(name="Constant derivative returns the constant", file=_FN,
         old="                     const Vector& x) const override {\n        return static_cast<T>(0);", new="                     const Vector& x) const override {\n        return value;", expect="LINEAR:Constant:every-derivative-zero"),
    dict(name="Linear value pairs x[i] with the next coefficient", file=_FN,
         old="            value += x[i]*coefficients[i];", new="            value += x[i]*coefficients[i+1];", expect="LINEAR:Linear:value"),
    dict(name="Step second derivative uses the first-derivative helper", file=_FN,
         old="          case 2: return d2stepAny(1,m_x0,m_ooxr, x) * m_yr;", new="          case 2: return dstepAny(1,m_x0,m_ooxr, x) * m_yr;", expect="TABLE:Step:derivative-order-2"),
]
