"""C42 -- MultibodyGraphMaker always produces a valid spanning tree (numbering, mirror and coverage clauses only).

That the heuristics find a tree, terminate, and avoid terminal massless bodies whenever that is possible is a property of the search and is
NOT decided.  Decided from the shape of MultibodyGraphMaker.cpp, for every input graph:
 NUMBER     every mobilizer / loop-constraint / slave-body number that is recorded (in a joint, a body, a master's slave list, a return value) is
            the index of exactly the element appended: the number is read from container.size() and exactly one push_back on that container
            lies between the read and every use.
 MIRROR     a joint is added to the tree in one of two mirror-image ways (parent inboard / child inboard): the two branches of
            addMobilizerForJoint are the same code with the roles exchanged and `reversed` = (the child is inboard) -- outboard level =
            inboard level + 1, mobilizer(joint, level, inboard, outboard, reversed), outboard.mobilizer = number; the forward and reverse
            candidate finders are the same code with parent / child exchanged.
 COVER      breakLoops gives every joint that has no mobilizer either a loop constraint or a mobilizer (on a new slave body whose master is the
            joint's child), on every iteration path, over all joints; the slave is recorded in its master and knows its master.
 ELIGIBLE   a joint becomes a tree mobilizer only where it is known to have none yet and not to be marked must-be-loop, and where the body
            it attaches is not in the tree: in growTree's main loop and in both candidate finders."""
import re
from ..facts import extract, units_matching, Program, sx_find, sx_str
from ..match import call_args, call_obj, var_of, field_of, ev_write, known_edges, only_via, expand_locals, subst
from ..columns import _loop_var, _steps, _lit, _iter_bypass

UNITS = r"SimTKmath/src/MultibodyGraphMaker\.cpp$"
G = "SimTK::MultibodyGraphMaker"


def _strip(x):
    while isinstance(x, list) and x and x[0] in ("cast", "conv", "paren"):
        x = x[2] if x[0] == "cast" else x[1]
    return x


def _size_reads(f):
    """[(block, idx, decl event, container field)] for `const int v = (int)container.size()`"""
    out = []
    for b, i, d in f.events(lambda q: q["k"] == "decl" and isinstance(q.get("init"), list)):
        c = _strip(d["init"])
        if isinstance(c, list) and c[:1] == ["call"] and str(c[1]).endswith("::size") and field_of(c[2]) and field_of(c[2]).startswith(G + "::"):
            out.append((b, i, d, field_of(c[2])))
    return out


def _uses(f, v, skip):
    """events that record the value of v: assignment whose right-hand side is v (possibly chained), return v, push_back(v)"""
    out = []
    for b, i, e in f.events():
        if e is skip:
            continue
        if e["k"] == "assign" and sx_find(e.get("rhs"), lambda y: y == ["var", v]):
            out.append((b, i, e))
        elif e["k"] == "ret" and _strip(e.get("val")) == ["var", v]:
            out.append((b, i, e))
        elif e["k"] == "call" and str(e.get("fn", "")).endswith("::push_back") and [_strip(z) for z in call_args(e)] == [["var", v]]:
            out.append((b, i, e))
    return out


def _path_pair(f, start, goal_ev, avoid_evs, pair):
    """path from just after `start` to goal_ev avoiding avoid_evs that does NOT cross an edge of both sets of `pair` (such a path is infeasible:
    `parent not in tree` and `child not in tree` cannot both hold where exactly one body is in the tree)"""
    ea, eb = pair
    b0, i0 = start
    for q in f.blocks[b0]["ev"][i0 + 1:]:
        if q is goal_ev:
            return [b0]
        if any(q is a for a in avoid_evs):
            return None
    infeas = f.infeasible_edges()
    seen = set()
    st = [(s_, (b0, s_) in ea, (b0, s_) in eb, (b0, s_)) for s_ in f.succs(b0) if (b0, s_) not in infeas]
    while st:
        b, sa, sb, path = st.pop()
        if sa and sb:
            continue
        if (b, sa, sb) in seen:
            continue
        seen.add((b, sa, sb))
        stop = False
        for q in f.blocks[b]["ev"]:
            if q is goal_ev:
                return list(path)
            if any(q is a for a in avoid_evs):
                stop = True
                break
        if stop:
            continue
        for s_ in f.succs(b):
            if (b, s_) in infeas:
                continue
            st.append((s_, sa or (b, s_) in ea, sb or (b, s_) in eb, path + (s_,)))
    return None


def number(chk, P):
    chk.rule("NUMBER", "a recorded element number is the index of the element appended: read from container.size(), exactly one push_back on that container between the read "
             "and every use, on every path")
    n = 0
    for name in ("addMobilizerForJoint", "breakLoops", "splitBody"):
        f = P.fn(G + "::" + name)
        for b, i, d, fld in _size_reads(f):
            v = d["var"]
            pushes = [(pb, pi, e) for pb, pi, e in f.calls() if str(e.get("fn", "")).endswith("::push_back") and field_of(call_obj(e)) == fld]
            uses = _uses(f, v, d)
            inst = "%s:%s=%s.size()" % (name, v, fld.split("::")[-1])
            if not chk.shape(bool(pushes) and bool(uses), "NUMBER", inst + ":sites", "%s:%d" % (f.file, d["line"]), "%d pushes, %d uses" % (len(pushes), len(uses))):
                continue
            n += 1
            # tabled infeasible edge: addMobilizerForJoint's `else if (child.isInTree())` is true whenever it is reached (exactly one of the two
            # bodies is in the tree: established at every call site, ELIGIBLE)
            dead = set()
            pair = None
            if name == "addMobilizerForJoint":
                def not_in_tree(fieldname):
                    neg = lambda c: isinstance(_strip(c), list) and _strip(c)[:1] == ["call"] and str(_strip(c)[1]).endswith("::isInTree") and \
                        bool(sx_find(expand_locals(f, _strip(c)[2], depth=3), lambda y: y[0] == "mem" and str(y[2]).endswith("::" + fieldname)))
                    return known_edges(f, lambda c: False, neg)
                pair = (not_in_tree("parentBodyNum"), not_in_tree("childBodyNum"))
            # (1) a use is never reached from the read without a push
            miss = None
            for ub, ui, u in uses:
                p = _path_pair(f, (b, i), u, [x[2] for x in pushes], pair) if pair else f.path_exists((b, i), lambda q, u=u: q is u, lambda q: any(q is x[2] for x in pushes), avoid_edges=dead, lift=0)
                # a use may precede the push inside one straight-line block: then the push must follow on every path before the number can be observed
                if p is not None:
                    p2 = f.path_exists((ub, ui), "exit", lambda q: any(q is x[2] for x in pushes), avoid_edges=dead, lift=0)
                    hdrs = f.loops_of(ub)
                    if p2 is None and not hdrs:
                        continue
                    if hdrs:
                        h = min(hdrs, key=lambda h_: len(f.loops()[h_]))
                        p3 = _iter_bypass(f, h, f.loops()[h], (ub, ui), [x[2] for x in pushes])
                        if p3 is None:
                            continue
                    miss = miss or p
            chk.judge(miss is None, "NUMBER", inst + ":a-push-accompanies-every-use", "%s:%d" % (f.file, d["line"]), "the number is recorded on a path that appends nothing to %s" % fld.split("::")[-1], miss)
            # (2) never two pushes for one read
            twice = None
            for pb, pi, e in pushes:
                for pb2, pi2, e2 in pushes:
                    hdrs = f.loops_of(pb)
                    q_ = f.path_exists((pb, pi), lambda z, e2=e2: z is e2, lambda z: z is d, lift=0)
                    if q_ is not None:
                        twice = twice or q_
            chk.judge(twice is None, "NUMBER", inst + ":one-push-per-read", "%s:%d" % (f.file, d["line"]), "two appends to %s follow one read of its size" % fld.split("::")[-1], twice)
    chk.floor("NUMBER", 8)
    return n


def _canon(x, ren):
    if not isinstance(x, list):
        return ren.get(x, x) if isinstance(x, str) else x
    if len(x) == 2 and x[0] == "var":
        return ["var", ren.get(x[1], x[1])]
    return [_canon(y, ren) for y in x]


def mirror(chk, P):
    chk.rule("MIRROR", "the two ways of attaching a joint are mirror images: same statements with the inboard / outboard roles exchanged, reversed = (child is inboard); the "
             "forward and reverse candidate finders are the same code with parent / child exchanged")
    f = P.fn(G + "::addMobilizerForJoint")
    role = {}
    for _, _, d in f.events(lambda q: q["k"] == "decl" and q.get("init") is not None):
        chain = expand_locals(f, d["init"], depth=3)
        r = {"P" if str(y[2]).endswith("::parentBodyNum") else "C" for y in sx_find(chain, lambda y: y[0] == "mem" and str(y[2]).endswith(("::parentBodyNum", "::childBodyNum")))}
        if len(r) == 1:
            role[d["var"]] = next(iter(r))
    # the two attachment blocks (they construct the Mobilizer) and, for each, the role whose body is known to be in the tree on every path to it
    def in_tree(role_):
        pos = lambda c: isinstance(_strip(c), list) and _strip(c)[:1] == ["call"] and str(_strip(c)[1]).endswith("::isInTree") and role.get(var_of(_strip(c)[2])) == role_
        return known_edges(f, pos, lambda c: False)
    branches = []
    for b, blk in f.blocks.items():
        if any(q["k"] == "call" and q.get("ctor") and "Mobilizer" in str(q.get("fn", "")) for q in blk["ev"]):
            rs = [r_ for r_ in ("P", "C") if in_tree(r_) and only_via(f, b, in_tree(r_))]
            if len(rs) == 1:
                branches.append((None, rs[0], b))
    if not chk.shape(len(branches) == 2 and {r for _, r, _ in branches} == {"P", "C"}, "MIRROR", "addMobilizerForJoint:two-branches", f.loc, "%s" % [(r) for _, r, _ in branches]):
        return
    canon = {}
    for b, inrole, tb in branches:
        ren = {v: ("IN" if r == inrole else "OUT") + ("#" if v != v.lower() and False else "") + ("" if not v.endswith("Num") and not v[0] in "pc" else "") for v, r in role.items()}
        # distinguish the body reference from its number by the declared type
        tyof = {d["var"]: str(d.get("ty", "")) for _, _, d in f.events(lambda q: q["k"] == "decl")}
        ren = {v: ("IN" if r == inrole else "OUT") + ("_num" if "int" in tyof.get(v, "") else "_body") for v, r in role.items()}
        seq = []
        flag = None
        for e in f.blocks[tb]["ev"]:
            if e["k"] == "assign":
                seq.append("%s %s %s" % (sx_str(_canon(e["lhs"], ren)), e["op"], sx_str(_canon(e["rhs"], ren))))
            elif e["k"] == "call" and e.get("ctor") and "Mobilizer" in str(e.get("fn", "")):
                a = call_args(e)
                flags = [z for z in a if _lit(z, ("true", "false"))]
                flag = flags[0][1] if len(flags) == 1 else None
                seq.append("Mobilizer(" + ", ".join("<rev>" if _lit(z, ("true", "false")) else sx_str(_canon(z, ren)) for z in a) + ")")
            elif e["k"] == "call" and str(e.get("fn", "")).endswith("::push_back"):
                seq.append("push_back on " + sx_str(call_obj(e)))
        canon[inrole] = (seq, flag)
    chk.judge(canon["P"][0] == canon["C"][0] and bool(canon["P"][0]), "MIRROR", "addMobilizerForJoint:branches-are-mirror-images", f.loc,
              "parent inboard: %s | child inboard: %s" % (canon["P"][0], canon["C"][0]))
    chk.judge(canon["P"][1] == "false" and canon["C"][1] == "true", "MIRROR", "addMobilizerForJoint:reversed-iff-the-child-is-inboard", f.loc, "flags %s / %s" % (canon["P"][1], canon["C"][1]))
    want = ["OUT_body.level = (IN_body.level + 1)", None, "push_back on this.mobilizers", "OUT_body.mobilizer = mobNum"]
    seq = canon["P"][0]
    oklev = len(seq) == 4 and seq[0] == want[0] and seq[2] == want[2] and re.match(r"OUT_body\.mobilizer = \w+$", seq[3]) is not None and \
        re.match(r"Mobilizer\(\w+, OUT_body\.level, IN_num, OUT_num, <rev>, this\)$", seq[1]) is not None
    chk.judge(oklev, "MIRROR", "addMobilizerForJoint:outboard-level=inboard-level+1;mobilizer(joint,level,inboard,outboard)", f.loc, "%s" % seq)
    # the two finders
    ff, fr = P.fn(G + "::findHeaviestUnassignedForwardJoint"), P.fn(G + "::findHeaviestUnassignedReverseJoint")
    swap = {"jointsAsParent": "jointsAsChild", "jointsAsChild": "jointsAsParent", "childBodyNum": "parentBodyNum", "parentBodyNum": "childBodyNum"}

    def text(g, do_swap):
        names = {}
        out = []

        def ren(x):
            if not isinstance(x, list):
                if isinstance(x, str) and "::" in x and do_swap:
                    tail = x.split("::")[-1]
                    if tail in swap:
                        return "::".join(x.split("::")[:-1] + [swap[tail]])
                return x
            if len(x) == 2 and x[0] == "var":
                return ["var", names.setdefault(x[1], "v%d" % len(names))]
            return [ren(y) for y in x]
        for b in sorted(g.blocks, reverse=True):
            blk = g.blocks[b]
            for e in blk["ev"]:
                if e["k"] == "decl":
                    names.setdefault(e["var"], "v%d" % len(names))
                    out.append("decl %s = %s" % (names[e["var"]], sx_str(ren(e.get("init")))))
                elif e["k"] == "assign":
                    out.append("%s %s %s" % (sx_str(ren(e["lhs"])), e["op"], sx_str(ren(e.get("rhs")))))
                elif e["k"] == "ret":
                    out.append("return %s" % sx_str(ren(e.get("val"))))
            t = blk.get("term")
            if t:
                out.append("%s %s -> %s" % (t.get("k"), sx_str(ren(t.get("cond"))), len(blk["succ"])))
        return out
    a, b_ = text(ff, False), text(fr, True)
    chk.shape(len(a) == len(b_) and len(a) > 8, "MIRROR", "finders:same-shape", ff.loc, "%d / %d statements" % (len(a), len(b_)))
    diff = [(x, y) for x, y in zip(a, b_) if x != y]
    chk.judge(not diff, "MIRROR", "finders:forward-and-reverse-are-mirror-images", fr.loc, "; ".join("%s <> %s" % d for d in diff[:2]))
    chk.floor("MIRROR", 5)


def cover(chk, P):
    chk.rule("COVER", "breakLoops: every joint without a mobilizer receives a loop constraint or a mobilizer on a new slave of its child, on every iteration path; the slave is "
             "recorded in its master and knows it")
    f = P.fn(G + "::breakLoops")
    loops = f.loops()
    hs = [h for h in loops if _loop_var(f, h)[0]]
    if not chk.shape(len(hs) == 1, "COVER", "breakLoops:joint-loop", f.loc, "%d" % len(hs)):
        return
    h = hs[0]
    iv, c = _loop_var(f, h)
    ds = [d for _, _, d in f.events(lambda q: q["k"] == "decl" and q["var"] == iv)]
    okl = len(ds) == 1 and _lit(ds[0].get("init"), ("0",)) and c[1] == "<" and _steps(f, loops[h], iv) == ["++"] and \
        bool(sx_find(c[3], lambda y: (y[0] == "call" and str(y[1]).endswith("::getNumJoints")) or (y[0] == "call" and str(y[1]).endswith("::size") and field_of(y[2]) == G + "::joints")))
    chk.judge(okl, "COVER", "breakLoops:every-joint-visited", f.loc, sx_str(c))
    jv = [d["var"] for _, _, d in f.events(lambda q: q["k"] == "decl" and isinstance(q.get("init"), list) and bool(sx_find(q["init"], lambda y: y[0] in ("opc", "idx") and field_of(y[2] if y[0] == "opc" else y[1]) == G + "::joints" and _strip(y[-1]) == ["var", iv])))]
    if not chk.shape(len(jv) == 1, "COVER", "breakLoops:joint-record", f.loc, "%s" % jv):
        return
    jv = jv[0]
    has = known_edges(f, lambda c_: isinstance(_strip(c_), list) and _strip(c_)[:1] == ["call"] and str(_strip(c_)[1]).endswith("::hasMobilizer") and var_of(_strip(c_)[2]) == jv, lambda c_: False)
    marks = [q for b in loops[h] for q in f.blocks[b]["ev"] if q["k"] == "assign" and isinstance(q["lhs"], list) and q["lhs"][:1] == ["mem"] and var_of(q["lhs"][1]) == jv and
             str(q["lhs"][2]).endswith(("::loopConstraint", "::mobilizer"))]
    # an iteration ends either across the `already has a mobilizer` edge or past a mark
    infeas = f.infeasible_edges()
    seen, st, byp = set(), [f.succs(h)[0]], None
    while st:
        b = st.pop()
        if b == h:
            byp = True
            break
        if b in seen or b not in loops[h]:
            continue
        seen.add(b)
        if any(any(q is m for m in marks) for q in f.blocks[b]["ev"]):
            continue
        for s in f.succs(b):
            if (b, s) in has or (b, s) in infeas:
                continue
            st.append(s)
    chk.judge(bool(marks) and bool(has) and byp is None, "COVER", "breakLoops:every-unused-joint-becomes-a-constraint-or-a-mobilizer", f.loc, "")
    # the slave path
    sp = [(b, e) for b, _, e in f.calls(G + "::splitBody")]
    mob = [(b, e) for b, _, e in f.calls() if e.get("ctor") and str(e.get("fn", "")).endswith("Mobilizer::Mobilizer")]
    if chk.shape(len(sp) == 1 and len(mob) == 1, "COVER", "breakLoops:slave-sites", f.loc, ""):
        child_num = expand_locals(f, call_args(sp[0][1])[0])
        of_joint = lambda y: var_of(y[1]) == jv or bool(sx_find(y[1], lambda z: z[0] in ("opc", "idx") and _strip(z[-1]) == ["var", iv]))
        okc = bool(sx_find(child_num, lambda y: y[0] == "mem" and str(y[2]).endswith("::childBodyNum") and of_joint(y)))
        chk.judge(okc, "COVER", "breakLoops:the-slave-is-split-from-the-joint's-child", f.loc, sx_str(child_num))
        sv = [d["var"] for _, _, d in f.events(lambda q: q["k"] == "decl" and q.get("init") == sp[0][1]["x"])]
        a = call_args(mob[0][1])
        par = expand_locals(f, a[2])
        oka = len(sv) == 1 and _strip(a[0]) == ["var", iv] and _strip(a[3]) == ["var", sv[0]] and _lit(a[4], ("false",)) and \
            bool(sx_find(par, lambda y: y[0] == "mem" and str(y[2]).endswith("::parentBodyNum") and of_joint(y)))
        lev = expand_locals(f, a[1], depth=3)
        oklev = isinstance(_strip(lev), list) and _strip(lev)[:2] == ["op", "+"] and _lit(_strip(lev)[3], ("1",)) and bool(sx_find(_strip(lev)[2], lambda y: y[0] == "mem" and str(y[2]).endswith("::level")))
        chk.judge(oka and oklev, "COVER", "breakLoops:mobilizer(joint,parent-level+1,parent,slave,not-reversed)", f.loc, "%s" % [sx_str(z) for z in a[:5]])
    s = P.fn(G + "::splitBody")
    mparam = s.d["params"][0][0]
    sm = [q for _, _, q in s.events(lambda q: q["k"] == "assign" and isinstance(q["lhs"], list) and q["lhs"][:1] == ["mem"] and str(q["lhs"][2]).endswith("::master") and _strip(q["rhs"]) == ["var", mparam])]
    rec = [e for _, _, e in s.calls() if str(e.get("fn", "")).endswith("::push_back") and str(field_of(call_obj(e)) or "").endswith("::slaves")]
    mref = [d["var"] for _, _, d in s.events(lambda q: q["k"] == "decl" and isinstance(q.get("init"), list) and q["init"][:1] == ["call"] and str(q["init"][1]).endswith("::updBody") and [_strip(z) for z in q["init"][3]] == [["var", mparam]])]
    okm = len(sm) == 1 and len(rec) == 1 and len(mref) == 1 and var_of(call_obj(rec[0])[1]) == mref[0]
    chk.judge(okm, "COVER", "splitBody:slave-knows-its-master-and-the-master-lists-the-slave", s.loc, "")
    chk.floor("COVER", 6)


def eligible(chk, P):
    chk.rule("ELIGIBLE", "a joint becomes a tree mobilizer only where `no mobilizer yet`, `not must-be-loop` and `the attached body is not in the tree` are known")
    for fn_, other in (("findHeaviestUnassignedForwardJoint", "childBodyNum"), ("findHeaviestUnassignedReverseJoint", "parentBodyNum")):
        f = P.fn(G + "::" + fn_)
        rets = [r for _, _, r in f.events(lambda q: q["k"] == "ret")]
        rv = var_of(_strip(rets[0]["val"])) if len(rets) == 1 else None
        sets = [(b, q) for b, _, q in f.events(lambda q: q["k"] == "assign" and q["lhs"] == ["var", rv] and not _lit(q.get("rhs"), ("-1",)))]
        if not chk.shape(rv is not None and len(sets) >= 1, "ELIGIBLE", fn_ + ":candidate-assignment", f.loc, ""):
            continue
        no_mob = known_edges(f, lambda c: False, lambda c: isinstance(_strip(c), list) and _strip(c)[:1] == ["call"] and str(_strip(c)[1]).endswith("::hasMobilizer"))
        no_loop = known_edges(f, lambda c: False, lambda c: isinstance(_strip(c), list) and _strip(c)[:1] == ["mem"] and str(_strip(c)[2]).endswith("::mustBeLoopJoint"))

        def far_not_in_tree(c):
            c = _strip(c)
            if not (isinstance(c, list) and c[:1] == ["call"] and str(c[1]).endswith("::isInTree")):
                return False
            ch = expand_locals(f, c[2], depth=3)
            return bool(sx_find(ch, lambda y: y[0] == "mem" and str(y[2]).endswith("::" + other)))
        no_tree = known_edges(f, lambda c: False, far_not_in_tree)
        for b, q in sets:
            ok = bool(no_mob) and bool(no_loop) and bool(no_tree) and only_via(f, b, no_mob) and only_via(f, b, no_loop) and only_via(f, b, no_tree)
            chk.judge(ok, "ELIGIBLE", fn_ + ":candidate-has-no-mobilizer,is-not-must-be-loop,far-body-not-in-tree", "%s:%d" % (f.file, q["line"]), "")
    g = P.fn(G + "::growTree")
    calls = [(b, e) for b, _, e in g.calls(G + "::addMobilizerForJoint")]
    if not calls:
        # `auto mobilizeAndRecord = [..](int j) { addMobilizerForJoint(j); .. }`: the lambda's calls are the attach sites, with its parameter as the joint
        for L in [x for x in P.all_fns() if x.d.get("parent") == g.id and x.blocks and len(x.d.get("params", [])) == 1]:
            inner = [e for _, _, e in L.calls(G + "::addMobilizerForJoint")]
            if len(inner) == 1 and _strip(call_args(inner[0])[0]) == ["var", L.d["params"][0][0]]:
                for b, _, e in g.calls():
                    if e.get("fid") == L.id:
                        a = [z for z in (e["x"][3:] if e["x"][:2] == ["opc", "()"] else call_args(e))]
                        calls.append((b, dict(e, x=["call", G + "::addMobilizerForJoint", ["this"], a[-1:]])))
    main = [(b, e) for b, e in calls if _strip(call_args(e)[0])[:1] == ["var"] and not any(str(d.get("init"))[:60].find("findHeaviest") >= 0 for _, _, d in g.events(lambda q, v=_strip(call_args(e)[0])[1]: q["k"] == "decl" and q["var"] == v))]
    ext = [(b, e) for b, e in calls if (b, e) not in main]
    chk.shape(len(main) == 1 and len(ext) >= 2, "ELIGIBLE", "growTree:attach-sites", g.loc, "%d in the main loop, %d in the massless-branch extension" % (len(main), len(ext)))
    if main:
        b, e = main[0]
        no_mob = known_edges(g, lambda c: False, lambda c: isinstance(_strip(c), list) and _strip(c)[:1] == ["call"] and str(_strip(c)[1]).endswith("::hasMobilizer"))
        no_loop = known_edges(g, lambda c: False, lambda c: isinstance(_strip(c), list) and _strip(c)[:1] == ["mem"] and str(_strip(c)[2]).endswith("::mustBeLoopJoint"))
        xor = known_edges(g, lambda c: isinstance(_strip(c), list) and _strip(c)[:2] == ["op", "^"], lambda c: False) | \
            known_edges(g, lambda c: False, lambda c: isinstance(_strip(c), list) and _strip(c)[:2] == ["un", "!"] and isinstance(_strip(_strip(c)[2]), list) and _strip(_strip(c)[2])[:2] == ["op", "^"])
        chk.judge(bool(no_mob) and only_via(g, b, no_mob), "ELIGIBLE", "growTree:main:joint-has-no-mobilizer", "%s:%d" % (g.file, e["line"]), "")
        chk.judge(bool(no_loop) and only_via(g, b, no_loop), "ELIGIBLE", "growTree:main:joint-is-not-must-be-loop", "%s:%d" % (g.file, e["line"]), "")
        chk.judge(bool(xor) and only_via(g, b, xor), "ELIGIBLE", "growTree:main:exactly-one-body-in-the-tree", "%s:%d" % (g.file, e["line"]), "")
    for k, (b, e) in enumerate(ext):
        v = _strip(call_args(e)[0])
        ds = [d for _, _, d in g.events(lambda q: q["k"] == "decl" and q["var"] == (v[1] if v[:1] == ["var"] else None))]
        okf = len(ds) == 1 and isinstance(ds[0].get("init"), list) and bool(sx_find(ds[0]["init"], lambda y: y[0] == "call" and "findHeaviestUnassigned" in str(y[1])))
        nonneg = known_edges(g, lambda c: isinstance(_strip(c), list) and len(_strip(c)) == 4 and _strip(c)[1] == ">=" and _strip(_strip(c)[2]) == v and _lit(_strip(c)[3], ("0",)), lambda c: False)
        chk.judge(okf and bool(nonneg) and only_via(g, b, nonneg), "ELIGIBLE", "growTree:extension#%d:joint-chosen-by-a-finder-and-found" % k, "%s:%d" % (g.file, e["line"]), "")
    chk.floor("ELIGIBLE", 8)


def fold(chk, P):
    chk.rule("FOLD", "chooseNewBaseBody returns its `none` sentinel only if no body outside the tree was seen: the arg-max accumulator starts below every possible value, so the "
             "first candidate is always accepted, and every other way to pass over a candidate depends on a flag that is raised only when a candidate is accepted")
    f = P.fn(G + "::chooseNewBaseBody")
    rets = [r for _, _, r in f.events(lambda q: q["k"] == "ret")]
    rv = var_of(_strip(rets[0]["val"])) if len(rets) == 1 else None
    rd = [d for _, _, d in f.events(lambda q: q["k"] == "decl" and q["var"] == rv)]
    if not chk.shape(rv is not None and len(rd) == 1 and (_lit(rd[0].get("init"), ("-1",)) or (isinstance(_strip(rd[0].get("init")), list) and _strip(rd[0]["init"])[:2] == ["un", "-"])), "FOLD", "chooseNewBaseBody:sentinel", f.loc,
                     "the result starts as -1"):
        return
    loops = f.loops()
    sets = [(b, q) for b, _, q in f.events(lambda q: q["k"] == "assign" and q["lhs"] == ["var", rv])]
    chk.shape(len(sets) >= 1 and all(any(b in body for body in loops.values()) for b, _ in sets), "FOLD", "chooseNewBaseBody:candidate-assignments", f.loc, "%d" % len(sets))
    h = [h_ for h_ in loops if all(b in loops[h_] for b, _ in sets)]
    if not h:
        return
    h = min(h, key=lambda h_: len(loops[h_]))
    body = loops[h]
    # the size comparison(s) that guard an assignment, and their accumulator
    accs = {}
    for b in body:
        t = f.blocks[b].get("term")
        c = _strip(t.get("cond")) if t and t.get("cond") is not None else None
        if isinstance(c, list) and len(c) == 4 and c[0] == "op" and c[1] in (">", ">=") and sx_find(expand_locals(f, c[2]), lambda y: y[0] == "call" and str(y[1]).endswith("::size")) and _strip(c[3])[:1] == ["var"]:
            accs[_strip(c[3])[1]] = c[1]
    if not chk.shape(len(accs) == 1, "FOLD", "chooseNewBaseBody:accumulator", f.loc, "%s" % sorted(accs)):
        return
    av, op = next(iter(accs.items()))
    ad = [d for _, _, d in f.events(lambda q: q["k"] == "decl" and q["var"] == av)]
    init = _strip(ad[0].get("init")) if len(ad) == 1 else None
    val = None
    if isinstance(init, list) and init[:1] == ["lit"]:
        val = int(init[1])
    elif isinstance(init, list) and init[:2] == ["un", "-"] and _strip(init[2])[:1] == ["lit"]:
        val = -int(_strip(init[2])[1])
    okinit = val is not None and (val < 0 if op == ">" else val <= 0)
    chk.judge(okinit, "FOLD", "chooseNewBaseBody:accumulator-starts-below-every-size", f.loc,
              "`size() %s %s` with %s starting at %s: a size is >= 0, so the first candidate is accepted only if the start is %s" % (op, av, av, val, "< 0" if op == ">" else "<= 0"))
    # other ways around the assignments: guards on flags that are raised only where a candidate is accepted (or the in-tree filter)
    flags = set()
    for b in body:
        t = f.blocks[b].get("term")
        c = t.get("cond") if t and t.get("cond") is not None else None
        for y in sx_find(c, lambda y: y[0] == "var"):
            ds = [(db, d) for db, _, d in f.events(lambda q: q["k"] == "decl" and q["var"] == y[1])]
            # (a sticky flag lives across iterations: declared outside the loop; a bool computed per candidate is data, not a flag)
            if len(ds) == 1 and "bool" in str(ds[0][1].get("ty", "")) and ds[0][0] not in body:
                flags.add(y[1])
    okflags = True
    for fl in flags:
        ups = [b for b, _, q in f.events(lambda q: q["k"] == "assign" and q["lhs"] == ["var", fl] and _lit(q.get("rhs"), ("true", "1")))]
        ds = [d for _, _, d in f.events(lambda q: q["k"] == "decl" and q["var"] == fl)]
        okflags = okflags and _lit(ds[0].get("init"), ("false", "0")) and bool(ups) and all(any(b == sb for sb, _ in sets) for b in ups)
    chk.judge(okflags, "FOLD", "chooseNewBaseBody:skip-flags-raised-only-with-a-candidate", f.loc, "flags %s" % sorted(flags))
    # every accumulator update accompanies a candidate assignment
    aw = [b for b, _, q in f.events(lambda q: q["k"] == "assign" and q["lhs"] == ["var", av])]
    chk.judge(bool(aw) and all(any(b == sb for sb, _ in sets) for b in aw) and all(any(sb == b for b in aw) for sb, _ in sets), "FOLD", "chooseNewBaseBody:accumulator-updated-with-the-candidate", f.loc, "")
    chk.floor("FOLD", 3)


def massless(chk, P):
    chk.rule("MASSLESS", "growTree's massless-branch decisions test the mass of the body that is actually outboard: the outboard body of the mobilizer just appended, or the far body "
             "of a finder's joint (child for the forward finder, parent for the reverse finder) -- never a joint-role body where either role may be the outboard one")
    g = P.fn(G + "::growTree")
    decls = {d["var"]: d.get("init") for _, _, d in g.events(lambda q: q["k"] == "decl")}

    def res(x, depth=6):
        x = _strip(x)
        while depth and isinstance(x, list) and x[:1] == ["var"] and isinstance(decls.get(x[1]), list):
            x = _strip(decls[x[1]])
            depth -= 1
        return x

    def last(n):
        return str(n).split("::")[-1]
    n = 0
    for b, i, e in g.events(lambda q: q["k"] == "mem" and last(q["field"]) == "mass"):
        n += 1
        base = res(e["base"])
        why = "not a getBody(...) of a recognised outboard body"
        ok = False
        if isinstance(base, list) and base[0] == "call" and last(base[1]) == "getBody" and len(base[3]) == 1:
            a = res(base[3][0])
            if isinstance(a, list) and a[0] == "mem" and last(a[2]) == "outboardBody":
                o = res(a[1])
                ok = isinstance(o, list) and o[0] == "call" and last(o[1]) == "back" and bool(sx_find(o, lambda y: y[0] == "mem" and last(y[2]) == "mobilizers"))
                why = "outboard body of the mobilizer just appended" if ok else "outboardBody of something other than mobilizers.back()"
            elif isinstance(a, list) and a[0] == "mem" and last(a[2]) in ("childBodyNum", "parentBodyNum"):
                j = _strip(a[1])
                src = None
                if isinstance(j, list) and j[0] == "call" and last(j[1]) == "getJoint" and len(j[3]) == 1:
                    src = res(j[3][0])
                fnd = last(src[1]) if isinstance(src, list) and src[0] == "call" else None
                want = {"findHeaviestUnassignedForwardJoint": "childBodyNum", "findHeaviestUnassignedReverseJoint": "parentBodyNum"}.get(fnd)
                ok = want == last(a[2])
                why = ("far body of the joint returned by %s" % fnd) if ok else ("%s of a joint %s" % (last(a[2]), ("returned by %s" % fnd) if fnd else "whose direction of attachment is not known here"))
        chk.judge(ok, "MASSLESS", "growTree:mass-test#%d:%s" % (n, "outboard-body" if ok else "body-tested-is-the-outboard-one"), "%s:%d" % (g.file, e["line"]), why)
    chk.shape(n >= 3, "MASSLESS", "growTree:mass-tests", g.loc, "%d" % n)


def run(chk, tier, overlays=()):
    units = units_matching(UNITS)
    P = Program(extract(units, hdr="^$", overlays=overlays))
    chk.units += units
    chk.nfunctions += len(P.fns)
    number(chk, P)
    mirror(chk, P)
    cover(chk, P)
    eligible(chk, P)
    fold(chk, P)
    massless(chk, P)


_F = "SimTKmath/src/MultibodyGraphMaker.cpp"
MUTATIONS = [
    dict(name="seeded (sub-agent, round 19): massless test on the joint's child instead of the mobilizer's outboard body", file=_F,
         old="            if (jtype.numMobilities == 0 || outboard.mass > 0)", new="            if (jtype.numMobilities == 0 || child.mass > 0)", expect="MASSLESS"),
    dict(name="extension accepts a reverse joint by the mass of its child", file=_F,
         old="                if (jrev>=0 && getBody(getJoint(jrev).parentBodyNum).mass > 0) {", new="                if (jrev>=0 && getBody(getJoint(jrev).childBodyNum).mass > 0) {", expect="MASSLESS"),
    dict(name="reverse attachment records the level of the inboard body", arm=True, file=_F,
         old="        parent.level = child.level + 1;\n        mobilizers.push_back(Mobilizer(jointNum,parent.level,\n                                       cNum,pNum,true,this));",
         new="        parent.level = child.level + 1;\n        mobilizers.push_back(Mobilizer(jointNum,child.level,\n                                       cNum,pNum,true,this));", expect="MIRROR:addMobilizerForJoint:branches-are-mirror-images"),
    dict(name="reverse attachment not flagged as reversed", file=_F,
         old="                                       cNum,pNum,true,this));", new="                                       cNum,pNum,false,this));", expect="MIRROR:addMobilizerForJoint:reversed-iff-the-child-is-inboard"),
    dict(name="reverse attachment lists parent as inboard", file=_F,
         old="                                       cNum,pNum,true,this));", new="                                       pNum,cNum,true,this));", expect="MIRROR:addMobilizerForJoint:branches-are-mirror-images"),
    dict(name="mobilizer number read after the append", arm=True, file=_F,
         old="        // Mobilize the slave body.\n        const int mobNum = (int)mobilizers.size(); // next available\n        const int level = parent.level+1;\n        jinfo.mobilizer = slave.mobilizer = mobNum;\n        slave.jointsAsChild.push_back(jx);\n        mobilizers.push_back(Mobilizer(jx,level,px,sx,false,this));",
         new="        // Mobilize the slave body.\n        const int level = parent.level+1;\n        mobilizers.push_back(Mobilizer(jx,level,px,sx,false,this));\n        const int mobNum = (int)mobilizers.size(); // next available\n        jinfo.mobilizer = slave.mobilizer = mobNum;\n        slave.jointsAsChild.push_back(jx);",
         expect="NUMBER:breakLoops:mobNum"),
    dict(name="reverse finder skips joints whose CHILD is in the tree", file=_F,
         old="        const Body& parent = getBody(joint.parentBodyNum);\n        if (parent.isInTree()) continue; // this is a loop joint",
         new="        const Body& parent = getBody(joint.childBodyNum);\n        if (parent.isInTree()) continue; // this is a loop joint", expect="MIRROR:finders"),
    dict(name="forward finder considers must-be-loop joints", arm=True, file=_F,
         old="        const int jfwd = inb.jointsAsParent[i];\n        const Joint& joint = joints[jfwd];\n        if (joint.hasMobilizer()) continue; // already in the tree\n        if (joint.mustBeLoopJoint) continue; // can't be a tree joint",
         new="        const int jfwd = inb.jointsAsParent[i];\n        const Joint& joint = joints[jfwd];\n        if (joint.hasMobilizer()) continue; // already in the tree", expect="ELIGIBLE:findHeaviestUnassignedForwardJoint"),
    dict(name="breakLoops leaves joints of types without a loop joint alone when the child is massless", file=_F,
         old="        // No usable loop constraint for this type of joint. Add a new slave", new="        if (getBody(cx).mass == 0) continue;\n        // No usable loop constraint for this type of joint. Add a new slave",
         expect="COVER:breakLoops:every-unused-joint-becomes-a-constraint-or-a-mobilizer"),
    dict(name="slave split from the joint's parent", file=_F,
         old="        const int sx = splitBody(cx);", new="        const int sx = splitBody(px);", expect="COVER:breakLoops:the-slave-is-split-from-the-joint's-child"),
    dict(name="growTree's main loop no longer skips must-be-loop joints", file=_F,
         old="            if (joint.mustBeLoopJoint) continue; // can't be a tree joint\n            const Body& parent = getBody(joint.parentBodyNum);\n            const Body& child  = getBody(joint.childBodyNum);\n            // Exactly one",
         new="            const Body& parent = getBody(joint.parentBodyNum);\n            const Body& child  = getBody(joint.childBodyNum);\n            // Exactly one", expect="ELIGIBLE:growTree:main:joint-is-not-must-be-loop"),
    dict(name="seeded (sub-agent): base-body search starts its child count at 0", file=_F,
         old="    int bestBody = -1; int nChildren=-1;", new="    int bestBody = -1; int nChildren=0;", expect="FOLD:chooseNewBaseBody:accumulator-starts-below-every-size"),
    dict(name="slave not recorded in its master", file=_F,
         old="    master.slaves.push_back(slaveBodyNum);\n", new="", expect="COVER:splitBody"),
]
