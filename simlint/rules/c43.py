"""C43 -- Assembly and fitting results satisfy what they report (Assembler part).

What is decided is the *reporting discipline* of Assembler::assemble() / track() and the *confinement* of what the optimizer
may change -- the clauses of the property whose truth is visible in the shape of the code:

 TOL       every normal return is reached only after a test `norm <= getErrorToleranceInUse()` has succeeded, and the norm
           that was tested (and the goal that is returned) is the one of the configuration that is left in the internal
           State: either it was measured (calcCurrentErrorNorm / calcCurrentGoal) after the last call that can change q,
           or it is the copy of an earlier measurement and the State was put back, by setInternalStateFromFreeQs(snapshot),
           to a snapshot of the free q's taken in the same configuration as that measurement (nothing that changes q
           between the two) with only free-q changes between the snapshot and its restoration.
 REVERT    assemble(): when the optimizer's goal is larger than the initial one the initial free q's are restored and the
           initial goal is what is returned.
 LOCKED    q's of the internal State are written only by the tabled functions; the optimizer's parameters reach the State
           only through setInternalStateFromFreeQs, which writes q[freeQ2Q[fx]] only; freeQ2Q receives a q index only when
           it is known not to be in lockedQs; every prescribed (non-Free) mobilizer, every user-locked mobilizer and
           every user-locked q is inserted into lockedQs.
 BOUNDS    the (lower, upper) arrays are handed to the optimizer system (in this order) whenever they were allocated;
           lower[fx] / upper[fx] receive r[0] / r[1] of the free q they belong to.
 ERRLIST   a condition of infinite weight with at least one error term goes to `errors` (finite weight: `goals`);
           constraintFunc evaluates every entry of `errors` into consecutive slots; the error norm is the RMS or the
           max-abs of exactly that vector, and the same tolerance is given to the optimizer before it runs.

Whether the optimizer converges, whether the goal reaches zero for achievable targets, ObservedPointFitter and
LocalEnergyMinimizer (no test of their result exists in the code to reason about) are not decided."""
import re
from ..facts import extract_split, units_matching, Program, AnalysisBroken, sx_find, sx_str
from ..match import (ev_write, call_args, call_obj, field_of, var_of, known_edges, only_via, expand_locals)
from .c09 import _block_path
from .c13 import frames

UNITS = r"/Simbody/src/(Assembler|AssemblyCondition_Markers|AssemblyCondition_OrientationSensors)\.cpp$"
HDR = r"/simbody/internal/Assembler\.h$"
A = "SimTK::Assembler"
AS = A + "::AssemblerSystem"
IS = A + "::internalState"
MEASURE = {"norm": A + "::calcCurrentErrorNorm", "goal": A + "::calcCurrentGoal"}
SNAP = A + "::getFreeQsFromInternalState"
RESTORE = A + "::setInternalStateFromFreeQs"
TOLFN = A + "::getErrorToleranceInUse"
OPTIMIZE = "SimTK::Optimizer::optimize"
# functions allowed to change q of the internal State directly (everything else must go through them)
Q_WRITERS = {
    A + "::setInternalStateFromFreeQs": "the optimizer's and the revert's only way to the State; writes free q's only (LOCKED)",
    A + "::assemble()": "applies prescribed motion (System::prescribeQ) before anything is measured",
    A + "::track": "sets the frame time and applies prescribed motion before anything is measured",
    A + "::Assembler": "constructor: initial State from the System's default state",
    A + "::setInternalState": "replaces the State by the caller's; un-initialises",
}


def _params_of(fid):
    m = re.search(r"\((.*)\)(const)?$", fid or "")
    if not m or not m.group(1):
        return []
    out, depth, cur = [], 0, ""
    for ch in m.group(1):
        if ch == "<":
            depth += 1
        elif ch == ">":
            depth -= 1
        if ch == "," and depth == 0:
            out.append(cur)
            cur = ""
        else:
            cur += ch
    out.append(cur)
    return [p.strip() for p in out]


def _is_state(x):
    return isinstance(x, list) and len(x) == 3 and x[0] == "mem" and x[2] == IS


def direct_change(e):
    """the call can change the internal State by itself: a non-const member call on it, or passing it to a non-const reference"""
    if e["k"] != "call":
        return False
    if _is_state(call_obj(e)) and not e.get("cconst") and not e.get("ctor"):
        return True
    ps = _params_of(e.get("fid"))
    for k, a in enumerate(call_args(e)):
        if _is_state(a) and k < len(ps) and ps[k].endswith("&") and not ps[k].startswith("const "):
            return True
    return False


class Changers:
    """calls that may change q of the internal State, seen from a function of class Assembler.  FREE-only changers
    (setInternalStateFromFreeQs, Optimizer::optimize -- its callbacks reach the State only through that function, LOCKED)
    leave locked and prescribed q's alone."""

    def __init__(self, P):
        self.P = P
        self.direct = {}
        for f in P.all_fns():
            if f.cls in (A, AS) or f.name.startswith(A + "::"):
                ds = [e for _, _, e in f.calls() if direct_change(e)]
                if ds:
                    self.direct[f.id] = ds
        self.memo = {}

    def fn_changes(self, fid, depth=3):
        """does a call of Assembler method fid change the State (transitively through class Assembler only: the measuring functions
        of AssemblerSystem re-set the free q's they have just read -- IDENTITY obligations)"""
        if fid in self.memo:
            return self.memo[fid]
        self.memo[fid] = False
        res = fid in self.direct
        if not res and depth > 0:
            for g in self.P.by_id.get(fid, []):
                if g.cls != A:
                    continue
                for _, _, e in g.calls():
                    c = e.get("fid")
                    if c and c != fid and self.P.by_id.get(c) and self.P.by_id[c][0].cls == A and self.fn_changes(c, depth - 1):
                        res = True
        self.memo[fid] = res
        return res

    def kind(self, e):
        """None | 'free' | 'any'"""
        if e["k"] != "call":
            return None
        n = e.get("fn", "")
        if n == RESTORE or n == OPTIMIZE:
            return "free"
        if direct_change(e):
            return "any"
        c = e.get("fid")
        if str(n).startswith("lambda@") and c:
            # a call of a local lambda changes what its body changes
            ks = {self.kind(q) for g in self.P.by_id.get(c, []) for _, _, q in g.calls()}
            return "any" if "any" in ks else ("free" if "free" in ks else None)
        if c and self.P.by_id.get(c) and self.P.by_id[c][0].cls == A and n not in MEASURE.values() and self.fn_changes(c):
            return "any"
        return None


def _pos(f, ev):
    for b, i, e in f.events(lambda q: q is ev):
        return b, i
    return None


def _reach(f, a, ev_b, avoid=lambda q: False):
    """is there a path from just after position a to event ev_b avoiding `avoid`"""
    return f.path_exists(a, lambda q: q is ev_b, avoid, lift=0) is not None


def changer_between(f, C, a, ev_b, kinds=("free", "any"), avoid=lambda q: False):
    """a changer (of the given kinds) that lies on some path from position a to event ev_b (paths avoiding `avoid`)"""
    for b, i, e in f.calls():
        if e is ev_b or C.kind(e) not in kinds:
            continue
        if (a is None or _reach(f, a, e, avoid)) and (a is not None or f.path_exists(None, lambda q: q is e, avoid, lift=0) is not None) and _reach(f, (b, i), ev_b, avoid):
            return e
    return None


def _is_measure(x, what):
    return isinstance(x, list) and x and x[0] == "call" and x[1] == MEASURE[what]


def _defs(f, v):
    return [(b, i, e) for b, i, e in f.events(lambda e: (e["k"] == "assign" and var_of(e["lhs"]) == v and e["lhs"][0] == "var") or (e["k"] == "decl" and e["var"] == v))]


def _rhs(e):
    return e.get("rhs") if e["k"] == "assign" else e.get("init")


def valid_for(chk, f, C, x, what, target_ev, inst, site):
    """is expression x (a variable or a direct measuring call evaluated at `site_pos`) the `what` (norm / goal) of the configuration
    that is in the State when target_ev (a return) executes?  Reports obligations; returns nothing."""
    rule = "TOL"
    if _is_measure(x, what):
        # measured in the condition itself: handled by the caller (position of the terminator)
        return
    v = var_of(x) if isinstance(x, list) and x and x[0] == "var" else None
    if not chk.shape(v is not None, rule, inst + ":tested-value-is-a-variable-or-a-measurement", site, "tested / returned expression: %s" % sx_str(x)):
        return
    defs = _defs(f, v)
    others = lambda D: (lambda q: any(q is d[2] for d in defs if d[2] is not D))
    reaching = [(b, i, D) for b, i, D in defs if _reach(f, (b, i), target_ev, others(D))]
    chk.shape(bool(reaching), rule, inst + ":%s:has-definition" % v, site, "%d definitions of %s reach the return" % (len(reaching), v))
    for n, (b, i, D) in enumerate(reaching):
        dsite = "%s:%d" % (f.file, D["line"])
        r = _rhs(D)
        k = "%s:%s:def#%d" % (inst, v, n)
        late = changer_between(f, C, (b, i), target_ev, avoid=others(D))
        chk.judge(late is None, rule, k + ":no-change-of-q-after-it", dsite,
                  "the State is changed (%s, line %s) after %s was last defined and before the return: the reported value is not the one of the returned configuration"
                  % (late and late.get("fn"), late and late.get("line"), v))
        if _is_measure(r, what):
            chk.ok(rule, k + ":is-a-measurement", dsite, "%s = %s" % (v, sx_str(r)))
            continue
        w = var_of(r) if isinstance(r, list) and r and r[0] == "var" else None
        wdefs = _defs(f, w) if w else []
        if not (w and len(wdefs) == 1 and _is_measure(_rhs(wdefs[0][2]), what)):
            chk.violation(rule, k + ":is-a-measurement-or-copy-of-one", dsite, "%s is defined from %s, which is neither %s() nor a variable holding it" % (v, sx_str(r), MEASURE[what].split("::")[-1]))
            continue
        mb, mi, M = wdefs[0]
        # copy of an earlier measurement M: the State must have been put back to the configuration of M
        restores = [(rb, ri, re_) for rb, ri, re_ in f.calls(RESTORE)]
        is_restore = lambda q: any(q is r_[2] for r_ in restores)
        unrestored = f.path_exists(None, lambda q: q is D, is_restore, lift=0)
        chk.judge(unrestored is None, rule, k + ":copy:state-restored-first", dsite,
                  "%s takes the earlier measurement %s but some path reaches this point without setInternalStateFromFreeQs(snapshot)" % (v, w), unrestored)
        for rb, ri, R in restores:
            # the restoration in force at the copy: the last one on the way to it
            if not _reach(f, (rb, ri), D, lambda q, R=R: is_restore(q) and q is not R):
                continue
            mid = changer_between(f, C, (rb, ri), D)
            chk.judge(mid is None, rule, k + ":copy:nothing-between-restore-and-copy", dsite, "q is changed (%s) between the restoration and the copy" % (mid and mid.get("fn")))
            s = var_of(call_args(R)[0]) if call_args(R) else None
            sdefs = _defs(f, s) if s else []
            ok_snap = bool(s) and len(sdefs) == 1 and isinstance(_rhs(sdefs[0][2]), list) and bool(sx_find(_rhs(sdefs[0][2]), lambda y: y[0] == "call" and y[1] == SNAP))
            # (a copy-constructed Vector(snapshot) is still the snapshot)
            chk.judge(ok_snap, rule, k + ":copy:restores-a-snapshot", "%s:%d" % (f.file, R["line"]), "the restored vector %s is a single getFreeQsFromInternalState() snapshot" % s)
            if not ok_snap:
                continue
            sb, si, S = sdefs[0]
            c1 = changer_between(f, C, (mb, mi), S) or changer_between(f, C, (sb, si), M)
            chk.judge(c1 is None, rule, k + ":copy:measurement-and-snapshot-same-configuration", "%s:%d" % (f.file, M["line"]),
                      "%s (line %d) and the snapshot %s (line %d) describe different configurations: %s (line %s) changes q between them, so restoring the snapshot does not restore "
                      "the configuration whose %s is reported" % (w, M["line"], s, S["line"], c1 and c1.get("fn"), c1 and c1.get("line"), what))
            c2 = changer_between(f, C, (sb, si), R, kinds=("any",))
            chk.judge(c2 is None, rule, k + ":copy:only-free-qs-change-between-snapshot-and-restore", "%s:%d" % (f.file, R["line"]),
                      "a non-free change of q (%s) lies between the snapshot and its restoration: the free-q snapshot does not restore it" % (c2 and c2.get("fn")))


def _tol_conds(f):
    """candidate tested expressions X in branch conditions `X <= tol` / `X > tol` (tol = getErrorToleranceInUse())"""
    out = {}
    for b, blk in f.blocks.items():
        t = blk.get("term")
        if not t or not isinstance(t.get("cond"), list):
            continue
        for c in sx_find(t["cond"], lambda y: y[0] == "op" and len(y) == 4 and y[1] in ("<=", ">", ">=", "<")):
            l, r = c[2], c[3]
            if c[1] in (">=", "<"):
                l, r = r, l
            if isinstance(r, list) and r and r[0] == "call" and r[1] == TOLFN:
                out.setdefault(sx_str(l), l)
    return out


def _states(c, x, pos):
    """c states `x <= tol` (pos) or `x > tol` (not pos), in either spelling"""
    if not (isinstance(c, list) and len(c) == 4 and c[0] == "op"):
        return False
    op, l, r = c[1], c[2], c[3]
    if op in (">=", "<"):
        op, l, r = {">=": "<=", "<": ">"}[op], r, l
    if not (isinstance(r, list) and r and r[0] == "call" and r[1] == TOLFN):
        return False
    return l == x and op == ("<=" if pos else ">")


def tol(chk, P, C, f, fname):
    rets = f.ret_events()
    chk.shape(len(rets) >= 2, "TOL", fname + ":returns", f.loc, "%d normal returns (short circuit and final)" % len(rets))
    cands = _tol_conds(f)
    chk.shape(bool(cands), "TOL", fname + ":tolerance-tests", f.loc, "expressions compared with getErrorToleranceInUse(): %s" % sorted(cands))
    for n, (rb, ri, R) in enumerate(sorted(rets, key=lambda r: r[2]["line"])):
        site = "%s:%d" % (f.file, R["line"])
        inst = "%s:return#%d" % (fname, n)
        gate = None
        for name, x in sorted(cands.items()):
            edges = known_edges(f, lambda c: _states(c, x, True), lambda c: _states(c, x, False))
            if edges and only_via(f, rb, edges):
                gate = (name, x, edges)
                break
        chk.judge(gate is not None, "TOL", inst + ":gated-by-tolerance-test", site,
                  "a normal return is reachable without a successful `error norm <= getErrorToleranceInUse()` test")
        if gate is None:
            continue
        name, x, edges = gate
        if _is_measure(x, "norm"):
            # measured in the condition: no change of q from there to the return
            for (gb, _s) in sorted(edges):
                evs = f.blocks[gb]["ev"]
                m = [k for k, e in enumerate(evs) if e["k"] == "call" and e.get("fn") == MEASURE["norm"]]
                if not m:
                    continue
                late = changer_between(f, C, (gb, m[-1]), R)
                chk.judge(late is None, "TOL", inst + ":no-change-of-q-after-the-test", site, "q is changed (%s) between the tolerance test and the return" % (late and late.get("fn")))
        else:
            valid_for(chk, f, C, x, "norm", R, inst + ":norm", site)
        # the returned goal
        val = R.get("val")
        if _is_measure(val, "goal"):
            late = None
            chk.ok("TOL", inst + ":goal:measured-at-return", site, "returns calcCurrentGoal() of the State as it is")
        else:
            valid_for(chk, f, C, val, "goal", R, inst + ":goal", site)


def revert(chk, P, C, f):
    """assemble(): goal larger than the initial goal => restore the initial free q's and report the initial goal"""
    rets = sorted(f.ret_events(), key=lambda r: r[2]["line"])
    if not rets:
        return
    R = rets[-1][2]
    g = var_of(R.get("val")) if isinstance(R.get("val"), list) and R["val"][0] == "var" else None
    if not chk.shape(g is not None, "REVERT", "assemble:returns-a-variable", f.loc, "final return value: %s" % sx_str(R.get("val"))):
        return
    meas = {d[2]["var"] for d in f.events(lambda e: e["k"] == "decl" and _is_measure(e.get("init"), "goal"))}
    assigned = {var_of(e["lhs"]) for _, _, e in f.events(lambda e: e["k"] == "assign")}
    initial = sorted(v for v in meas if v not in assigned and v != g)
    if not chk.shape(len(initial) == 1, "REVERT", "assemble:initial-goal-variable", f.loc, "single-assignment goal measurements: %s" % initial):
        return
    g0 = initial[0]
    worse = lambda c: isinstance(c, list) and len(c) == 4 and c[0] == "op" and ((c[1] == ">" and var_of(c[2]) == g and var_of(c[3]) == g0) or (c[1] == "<" and var_of(c[2]) == g0 and var_of(c[3]) == g))
    notworse = lambda c: isinstance(c, list) and len(c) == 4 and c[0] == "op" and ((c[1] == "<=" and var_of(c[2]) == g and var_of(c[3]) == g0) or (c[1] == ">=" and var_of(c[2]) == g0 and var_of(c[3]) == g))
    edges = known_edges(f, worse, notworse)
    chk.judge(bool(edges), "REVERT", "assemble:compares-achieved-with-initial-goal", f.loc, "a branch tests `%s > %s`" % (g, g0))
    region = {b for b in f.blocks if only_via(f, b, edges)} if edges else set()
    rs = [(b, i, e) for b, i, e in f.calls(RESTORE) if b in region]
    asg = [(b, i, e) for b, i, e in f.events(lambda e: e["k"] == "assign" and var_of(e["lhs"]) == g and var_of(e.get("rhs")) == g0) if b in region]
    chk.judge(bool(rs), "REVERT", "assemble:worse-goal=>initial-free-qs-restored", f.loc, "under `%s > %s` the initial free q's are put back" % (g, g0))
    chk.judge(bool(asg), "REVERT", "assemble:worse-goal=>initial-goal-reported", f.loc, "under `%s > %s` the returned goal becomes the initial goal" % (g, g0))
    # every path from the optimizer to the final return either knows the goal is not worse or passes the revert
    opt = sites_of(P, f, lambda q: q["k"] == "call" and q.get("fn") == OPTIMIZE)
    chk.shape(len(opt) == 1, "REVERT", "assemble:one-optimize-call", f.loc, "%d optimize call sites (directly or in a local lambda)" % len(opt))


def lambdas_of(P, f):
    return [g for g in P.all_fns() if g.d.get("parent") == f.id and g.blocks]


def group(P, r, depth=2, seen=None):
    """r together with the same-class functions it calls (an initialisation routine split into helpers is still one routine) and their local lambdas"""
    seen = seen if seen is not None else []
    if r in seen:
        return seen
    seen.append(r)
    for g in lambdas_of(P, r):
        if g not in seen:
            seen.append(g)
    if depth > 0:
        for _, _, e in r.calls():
            c = e.get("fid")
            for g in P.by_id.get(c, []) if c else []:
                if g.cls == r.cls and g.blocks and g.kind not in ("ctor", "dtor") and sum(1 for _ in g.calls()) > 6 and g.name.split("::")[-1] not in ("uninitialize", "initialize"):
                    group(P, g, depth - 1, seen)
    return seen


def loop_fields(f, h):
    """what loop h iterates over: members / getNumBodies named by its condition, or -- for a range-for -- by the initialiser of the range variable behind its iterators"""
    out = set()
    t = f.blocks[h].get("term")
    c = t.get("cond") if t else None
    if not isinstance(c, list):
        return out

    def harvest(x):
        for y in sx_find(x, lambda y: y[0] == "mem" or (y[0] == "call" and y[1].endswith("::getNumBodies"))):
            out.add(y[2] if y[0] == "mem" else "getNumBodies")
    harvest(c)
    hl = [e["line"] for e in f.blocks[h]["ev"] if "line" in e]
    hline = max(hl) if hl else t.get("line", 10 ** 9)
    todo, done = [y[1] for y in sx_find(c, lambda y: y[0] == "var")], set()
    for _ in range(3):
        nxt = []
        for v in todo:
            if v in done:
                continue
            done.add(v)
            # the declaration of v in force at the loop: the nearest one before the loop's condition (for-init and range-for variables reuse names)
            ds = [d for _, _, d in f.events(lambda q: q["k"] == "decl" and q["var"] == v and isinstance(q.get("init"), list)) if d["line"] <= hline]
            ds = sorted(ds, key=lambda d: (d["line"], d.get("col", 0)))[-1:]
            for d in ds:
                harvest(d["init"])
                nxt += [y[1] for y in sx_find(d["init"], lambda y: y[0] == "var")]
        todo = nxt
    return out


def sites_of(P, F, pred):
    """(function, block, index, site event, body function, matching event): events of F satisfying pred, and calls in F of a local lambda / same-class helper whose
    body contains one (the site is then the call, the body is the callee)"""
    out = []
    for b, i, e in F.events(pred):
        out.append((F, b, i, e, F, e))
    for b, i, e in F.calls():
        c = e.get("fid")
        for g in P.by_id.get(c, []) if c else []:
            if g is F or not g.blocks:
                continue
            if g.d.get("parent") == F.id or (g.cls == F.cls and g.cls):
                inner = [q for _, _, q in g.events(pred)]
                if inner and not any(x[3] is e for x in out):
                    out.append((F, b, i, e, g, inner[0]))
    return out


def locked(chk, P, C):
    # who may change q of the internal State directly
    found = {}
    for fid, ds in C.direct.items():
        f = P.by_id[fid][0]
        found[fid] = (f, ds)
    names = set()
    for fid, (f, ds) in sorted(found.items()):
        key = fid if fid in Q_WRITERS else f.name
        ok = key in Q_WRITERS
        names.add(key)
        chk.judge(ok, "LOCKED", "writer:%s" % fid.replace("SimTK::", ""), f.loc,
                  "changes the internal State directly (%s) but is not a tabled writer: the optimizer / a helper could move locked or prescribed q's" % sorted({d.get("fn") for d in ds}))
    chk.shape(A + "::setInternalStateFromFreeQs" in names, "LOCKED", "writer-table:setInternalStateFromFreeQs-found", "", "tabled writers found: %s" % sorted(names))
    # AssemblerSystem callbacks reach the State only through setInternalStateFromFreeQs
    for f in P.all_fns():
        if (f.cls == AS or (f.cls or "").startswith(AS + "::")) and any(True for _ in f.calls()):
            bad = [e for _, _, e in f.calls() if direct_change(e)]
            chk.judge(not bad, "LOCKED", "callback:%s" % f.name.replace("SimTK::", ""), f.loc, "optimizer callback changes the State directly: %s" % [b.get("fn") for b in bad])
    # setInternalStateFromFreeQs writes q[getQIndexOfFreeQ(fx)] only
    s = P.fn(RESTORE)
    qrefs = {d["var"] for _, _, d in s.events(lambda e: e["k"] == "decl" and isinstance(e.get("init"), list) and bool(sx_find(e["init"], lambda y: y[0] == "call" and y[1] == "SimTK::State::updQ")))}
    chk.shape(len(qrefs) == 1, "LOCKED", "setInternalStateFromFreeQs:q-reference", s.loc, "references bound to internalState.updQ(): %s" % sorted(qrefs))
    ws = [(b, i, e) for b, i, e in s.events(lambda e: e["k"] == "assign" and var_of(e["lhs"]) in qrefs)]
    chk.shape(bool(ws), "LOCKED", "setInternalStateFromFreeQs:writes", s.loc, "%d element writes" % len(ws))
    for b, i, e in ws:
        idx = e["lhs"][3] if e["lhs"][0] == "opc" and e["lhs"][1] == "[]" and len(e["lhs"]) > 3 else None
        viafree = bool(idx) and bool(sx_find(idx, lambda y: y[0] == "call" and y[1] == A + "::getQIndexOfFreeQ")) or (bool(idx) and bool(sx_find(idx, lambda y: y[0] == "mem" and y[2] == A + "::freeQ2Q")))
        chk.judge(e["op"] == "=" and viafree, "LOCKED", "setInternalStateFromFreeQs:writes-free-qs-only", "%s:%d" % (s.file, e["line"]),
                  "q is written at index %s: only q[getQIndexOfFreeQ(fx)] may be written" % (sx_str(idx) if idx else "(whole vector)"))
    whole = [e for _, _, e in s.calls() if e.get("op") in ("=", "+=", "-=") and isinstance(e.get("x"), list) and len(e["x"]) > 2 and var_of(e["x"][2]) in qrefs and e["x"][2][0] == "var"]
    chk.judge(not whole, "LOCKED", "setInternalStateFromFreeQs:no-whole-vector-write", s.loc, "the whole q vector is assigned")
    g = P.fn(A + "::getQIndexOfFreeQ")
    rv = [e for _, _, e in g.ret_events()]
    chk.judge(len(rv) == 1 and bool(sx_find(rv[0]["val"], lambda y: y[0] == "mem" and y[2] == A + "::freeQ2Q")), "LOCKED", "getQIndexOfFreeQ=freeQ2Q[fx]", g.loc, "returns %s" % [sx_str(r["val"]) for r in rv])
    # freeQ2Q filled with unlocked q's only -- over the (re)initialisation routine and the helpers it is split into
    r0 = P.fn(A + "::reinitializeWithExtraQsLocked")
    G = group(P, r0)
    chk.ok("LOCKED", "initialisation-routine", r0.loc, "analysed as one routine: %s" % [g.name.split("::")[-1] for g in G])

    def _fq_write(e):
        w = ev_write(e)
        return bool(w) and w[1] == "=" and field_of(w[0]) == A + "::freeQ2Q" and w[0][0] != "mem"
    nw = 0
    for r in G:
        fw = [(b, i, e) for b, i, e in r.events(_fq_write)]
        if not fw:
            continue
        nl = [d for _, _, d in r.events(lambda e: e["k"] == "decl" and isinstance(e.get("init"), list) and bool(sx_find(e["init"], lambda y: y[0] == "call" and y[1].endswith("::size") and field_of(y[2]) == A + "::lockedQs")))]
        nlv = {d["var"] for d in nl}
        notfound = lambda c: isinstance(c, list) and len(c) >= 4 and c[0] in ("op", "opc") and c[1] == "==" and _find_end(c[2], c[3])
        found_ = lambda c: isinstance(c, list) and len(c) >= 4 and c[0] in ("op", "opc") and c[1] == "!=" and _find_end(c[2], c[3])
        e_unlocked = known_edges(r, notfound, found_)
        nonzero = lambda c: (isinstance(c, list) and c and c[0] == "var" and c[1] in nlv) or (isinstance(c, list) and len(c) == 4 and c[0] == "op" and c[1] in ("!=", ">") and var_of(c[2]) in nlv)
        zero = lambda c: isinstance(c, list) and len(c) == 4 and c[0] == "op" and c[1] == "==" and var_of(c[2]) in nlv
        e_none = known_edges(r, zero, nonzero)
        for (b, i, e) in fw:
            ok = only_via(r, b, e_unlocked) or only_via(r, b, e_none)
            chk.judge(ok, "LOCKED", "freeQ2Q:write#%d:only-unlocked-qs" % nw, "%s:%d" % (r.file, e["line"]),
                      "a q index is entered as free without `lockedQs.find(qx) == lockedQs.end()` being known (and not in the nothing-is-locked branch)")
            nw += 1
    chk.shape(nw >= 2, "LOCKED", "freeQ2Q:writes", r0.loc, "%d element writes of freeQ2Q in the initialisation routine" % nw)
    for f in P.all_fns():
        if f in G or not (f.cls == A):
            continue
        for b, i, e in f.events(_fq_write):
            chk.violation("LOCKED", "freeQ2Q:written-in:%s" % f.name, "%s:%d" % (f.file, e["line"]), "freeQ2Q is filled outside the initialisation routine")
    # the lock sources insert into lockedQs
    is_ins = lambda q: q["k"] == "call" and str(q.get("fn", "")).endswith("::insert") and field_of(call_obj(q)) == A + "::lockedQs"
    free_eq = lambda c: isinstance(c, list) and len(c) >= 4 and c[0] in ("op", "opc") and c[1] == "==" and bool(sx_find(c, lambda y: y[0] == "call" and y[1].endswith("::getQMotionMethod"))) and bool(sx_find(c, lambda y: y[0] == "enum" and y[1] == "SimTK::Motion::Free"))
    free_ne = lambda c: isinstance(c, list) and len(c) >= 4 and c[0] in ("op", "opc") and c[1] == "!=" and bool(sx_find(c, lambda y: y[0] == "call" and y[1].endswith("::getQMotionMethod"))) and bool(sx_find(c, lambda y: y[0] == "enum" and y[1] == "SimTK::Motion::Free"))
    srcs = {"prescribed": None, A + "::userLockedMobilizers": None, A + "::userLockedQs": None, A + "::extraQsLocked": None}
    tested = False
    for r in G:
        e_presc = known_edges(r, free_ne, free_eq)
        tested = tested or bool(e_presc)
        for (F, b, i, site, body, ins) in sites_of(P, r, is_ins):
            ls = set()
            for h in F.loops_of(b):
                ls |= loop_fields(F, h)
            if e_presc and only_via(F, b, e_presc) and "getNumBodies" in ls:
                srcs["prescribed"] = (F, site, body, ins)
            for k in list(srcs):
                if k in ls:
                    srcs[k] = (F, site, body, ins)
            if F.loop_depth(b) == 0 and sx_find(ins["x"], lambda y: y[0] == "mem" and y[2] == A + "::extraQsLocked"):
                srcs[A + "::extraQsLocked"] = (F, site, body, ins)
    chk.shape(tested, "LOCKED", "prescribed:motion-method-test", r0.loc, "a branch tests getQMotionMethod(...) against Motion::Free")
    for k, v in sorted(srcs.items()):
        chk.judge(v is not None, "LOCKED", "lockedQs<-%s" % k.split("::")[-1], r0.loc, "q's of source `%s` are inserted into lockedQs" % k.split("::")[-1])
        if v is None or k == A + "::extraQsLocked":
            continue
        F, site, body, ins = v
        # all q's of the mobilizer: index q0+i (or q0+q) with q0 = getFirstQIndex; whole-mobilizer sources loop i over 0..getNumQ -- judged where the insert is written
        a = _expand_here(body, call_args(ins)[0], ins) if call_args(ins) else None
        okq0 = bool(a) and bool(sx_find(a, lambda y: y[0] == "call" and y[1].endswith("::getFirstQIndex")))
        chk.judge(okq0, "LOCKED", "lockedQs<-%s:index-from-getFirstQIndex" % k.split("::")[-1], "%s:%d" % (body.file, ins["line"]), "inserted index: %s" % (sx_str(a) if a else None))
        if k != A + "::userLockedQs":
            b = _pos(body, ins)[0]
            inner = None
            for h in body.loops_of(b):
                t = body.blocks[h].get("term")
                if t and isinstance(t.get("cond"), list):
                    c = _expand_here(body, t["cond"], ins)
                    if sx_find(c, lambda y: y[0] == "call" and y[1].endswith("::getNumQ")) and sx_find(c, lambda y: y[0] == "op" and y[1] == "<"):
                        inner = c
            chk.judge(inner is not None, "LOCKED", "lockedQs<-%s:all-qs-of-the-mobilizer" % k.split("::")[-1], "%s:%d" % (body.file, ins["line"]), "the insertion loop runs while i < getNumQ(...)")


def _conv(p):
    return p


def _expand_here(f, x, at_ev):
    """x with each local replaced by the initialiser of the declaration of that name that reaches at_ev (several scopes may declare the same name)"""
    if not isinstance(x, list):
        return x
    if len(x) == 2 and x[0] == "var":
        ds = [(b, i, d) for b, i, d in f.events(lambda q: q["k"] == "decl" and q["var"] == x[1] and q.get("init") is not None)]
        asg = any(True for _ in f.events(lambda q: (q["k"] == "assign" and var_of(q["lhs"]) == x[1]) or (q["k"] == "call" and q.get("op") in ("++", "--", "+=") and var_of(q["x"][2]) == x[1])))
        if asg:
            return x
        live = [d for b, i, d in ds if f.path_exists((b, i), lambda q: q is at_ev, lambda q: any(q is o[2] for o in ds if o[2] is not d), lift=0) is not None]
        if len(live) == 1:
            return live[0]["init"]
        return x
    return [_expand_here(f, y, at_ev) for y in x]


def _find_end(a, b):
    """one side is lockedQs.find(..), the other lockedQs.end()"""
    def is_(x, nm):
        return bool(sx_find(x, lambda y: y[0] == "call" and y[1].endswith("::" + nm) and field_of(y[2]) == A + "::lockedQs"))
    return (is_(a, "find") and is_(b, "end")) or (is_(b, "find") and is_(a, "end"))


def _holder(P, pred):
    """the function of the (re)initialisation routine -- reinitializeWithExtraQsLocked or a helper it is split into -- that contains an event satisfying pred"""
    G = group(P, P.fn(A + "::reinitializeWithExtraQsLocked"))
    for g in G:
        if any(True for _ in g.events(pred)):
            return g
    return G[0]


def bounds(chk, P):
    r = _holder(P, lambda q: q["k"] == "call" and str(q.get("fn", "")).endswith("::setParameterLimits"))
    cs = [(b, i, e) for b, i, e in r.calls() if str(e.get("fn", "")).endswith("::setParameterLimits")]
    if not chk.shape(len(cs) == 1, "BOUNDS", "setParameterLimits:one-call", r.loc, "%d calls" % len(cs)):
        return
    b, i, e = cs[0]
    a = call_args(e)
    chk.judge(len(a) == 2 and field_of(a[0]) == A + "::lower" and field_of(a[1]) == A + "::upper", "BOUNDS", "setParameterLimits(lower,upper)", "%s:%d" % (r.file, e["line"]),
              "limits handed to the optimizer system: %s" % [sx_str(x) for x in a])
    chk.judge(field_of(call_obj(e)) == A + "::asmSys", "BOUNDS", "setParameterLimits:on-asmSys", "%s:%d" % (r.file, e["line"]), "receiver %s" % sx_str(call_obj(e)))
    has = lambda c: bool(sx_find(c, lambda y: y[0] == "call" and y[1].endswith("::size") and field_of(y[2]) in (A + "::lower", A + "::upper"))) and \
        not (isinstance(c, list) and c and c[0] == "op" and c[1] in ("==", "<=", "&&", "||")) and not (isinstance(c, list) and c and c[0] == "un")
    edges = known_edges(r, has, lambda c: isinstance(c, list) and len(c) == 4 and c[0] == "op" and c[1] == "==" and has(c[2]))
    gates = {gb for gb, _ in edges}
    bypass = r.path_exists(None, "exit", lambda q: False, avoid_blocks=gates, lift=0) if gates else [r.entry]
    chk.judge(bool(edges) and only_via(r, b, edges) and bypass is None, "BOUNDS", "setParameterLimits:whenever-allocated", "%s:%d" % (r.file, e["line"]),
              "the call is guarded only by `lower.size()` and that test is on every path to the exit")
    # Optimizer::Optimizer(sys) chooses its algorithm from the system AS IT IS at construction (limits => LBFGSB rather than LBFGS, constraints => interior point):
    # everything that configures asmSys must precede the construction of the Optimizer from it, otherwise an algorithm that never reads the limits may be chosen
    ctors = [(bb, ii, ee) for bb, ii, ee in r.calls() if ee.get("ctor") and ee.get("fn") == "SimTK::Optimizer::Optimizer" and bool(sx_find(ee["x"], lambda y: y[0] == "mem" and y[2] == A + "::asmSys"))]
    if chk.shape(len(ctors) == 1, "BOUNDS", "optimizer-constructed-from-asmSys", r.loc, "%d constructions of an Optimizer from *asmSys" % len(ctors)):
        cb, ci, ce = ctors[0]
        conf = [(bb, ii, ee) for bb, ii, ee in r.calls() if field_of(call_obj(ee)) == A + "::asmSys" and re.search(r"OptimizerSystem::set\w+$", str(ee.get("fn", "")))]
        chk.shape(len(conf) >= 2, "BOUNDS", "asmSys-configuration-calls", r.loc, "configuration calls on asmSys: %s" % sorted({x[2]["fn"].split("::")[-1] for x in conf}))
        for bb, ii, ee in conf:
            late = r.path_exists((cb, ci), lambda q, ee=ee: q is ee, lambda q: False, lift=0)
            chk.judge(late is None, "BOUNDS", "%s:before-the-Optimizer-is-constructed" % ee["fn"].split("::")[-1], "%s:%d" % (r.file, ee["line"]),
                      "asmSys is configured after `new Optimizer(*asmSys)` chose its algorithm from it (without limits / constraints visible, an algorithm that ignores them may be chosen)", late)
    # lower[fx] = r[0]; upper[fx] = r[1]
    r = _holder(P, lambda q: q["k"] == "assign" and field_of(q["lhs"]) in (A + "::lower", A + "::upper") and q["lhs"][0] in ("opc", "idx"))
    for fld, k in ((A + "::lower", "0"), (A + "::upper", "1")):
        ws = [(bb, ii, ee) for bb, ii, ee in r.events(lambda q: q["k"] == "assign" and field_of(q["lhs"]) == fld and q["lhs"][0] in ("opc", "idx"))]
        chk.shape(len(ws) == 1, "BOUNDS", "%s[fx]:one-write" % fld.split("::")[-1], r.loc, "%d element writes" % len(ws))
        for bb, ii, ee in ws:
            idx = ee["lhs"][3] if len(ee["lhs"]) > 3 else None
            iv = var_of(idx) if idx else None
            rhs = ee.get("rhs")
            lit = [y for y in sx_find(rhs, lambda y: y[0] == "lit")]
            okr = len(lit) == 1 and lit[0][1] == k
            chk.judge(okr, "BOUNDS", "%s[fx]=range[%s]" % (fld.split("::")[-1], k), "%s:%d" % (r.file, ee["line"]), "assigned %s" % sx_str(rhs))
            ivd = [d for _, _, d in r.events(lambda q: q["k"] == "decl" and q["var"] == iv)]
            okx = len(ivd) == 1 and bool(sx_find(ivd[0]["init"], lambda y: y[0] == "mem" and y[2] == A + "::q2FreeQ"))
            chk.judge(okx, "BOUNDS", "%s[fx]:fx=q2FreeQ[qx]" % fld.split("::")[-1], "%s:%d" % (r.file, ee["line"]), "index %s = %s" % (iv, sx_str(ivd[0]["init"]) if ivd else None))


def errlist(chk, P):
    r = _holder(P, lambda q: q["k"] == "call" and str(q.get("fn", "")).endswith("::push_back") and field_of(call_obj(q)) == A + "::errors")
    isinf = lambda c: isinstance(c, list) and len(c) >= 4 and c[0] in ("op", "opc") and c[1] == "==" and field_of(c[2]) == A + "::weights" and bool(sx_find(c[3], lambda y: y[0] == "gvar" and y[1].endswith("Infinity")))
    notinf = lambda c: isinstance(c, list) and len(c) >= 4 and c[0] in ("op", "opc") and c[1] == "!=" and field_of(c[2]) == A + "::weights" and bool(sx_find(c[3], lambda y: y[0] == "gvar" and y[1].endswith("Infinity")))
    e_inf = known_edges(r, isinf, notinf)
    e_fin = known_edges(r, notinf, isinf)
    chk.shape(bool(e_inf) and bool(e_fin), "ERRLIST", "weight==Infinity-test", r.loc, "a branch separates infinite-weight conditions (errors) from finite-weight ones (goals)")
    pe = [(b, i, e) for b, i, e in r.calls() if str(e.get("fn", "")).endswith("::push_back") and field_of(call_obj(e)) == A + "::errors"]
    pg = [(b, i, e) for b, i, e in r.calls() if str(e.get("fn", "")).endswith("::push_back") and field_of(call_obj(e)) == A + "::goals"]
    chk.judge(len(pe) == 1 and only_via(r, pe[0][0], e_inf), "ERRLIST", "errors<-infinite-weight", r.loc, "errors.push_back(acx) under weights[acx] == Infinity")
    chk.judge(len(pg) == 1 and only_via(r, pg[0][0], e_fin), "ERRLIST", "goals<-finite-weight", r.loc, "goals.push_back(acx) under weights[acx] != Infinity")
    if len(pe) == 1:
        b, i, e = pe[0]
        h = [x for x in r.loops_of(b)]
        chk.shape(len(h) == 1, "ERRLIST", "errors:in-the-conditions-loop", r.loc, "loop nesting of the push_back: %d" % len(h))
        if len(h) == 1:
            t = r.blocks[h[0]].get("term")
            okl = bool(t) and (A + "::conditions") in loop_fields(r, h[0])
            chk.judge(okl, "ERRLIST", "errors:loop-over-all-conditions", r.loc, "loop condition %s" % (sx_str(t["cond"]) if t else None))
            # the only ways past the push_backs inside an iteration: weight == 0, or no error terms
            skipw = known_edges(r, lambda c: isinstance(c, list) and len(c) >= 4 and c[0] in ("op", "opc") and c[1] == "==" and field_of(c[2]) == A + "::weights" and sx_find(c[3], lambda y: y[0] == "lit" and y[1] in ("0", "0.0", "0.")),
                                lambda c: False)
            nv = {d["var"] for _, _, d in r.events(lambda q: q["k"] == "decl" and isinstance(q.get("init"), list) and bool(sx_find(q["init"], lambda y: y[0] == "call" and y[1].endswith("::getNumErrors"))))}
            skipn = known_edges(r, lambda c: isinstance(c, list) and len(c) == 4 and c[0] == "op" and c[1] == "==" and var_of(c[2]) in nv and c[3][0] == "lit" and c[3][1] == "0", lambda c: False)
            body_entry = [s for s in r.succs(h[0]) if h[0] in {x for x in r.loops_of(s)}]
            allowed = skipw | skipn
            ispush = lambda q: any(q is x[2] for x in pe + pg)
            bad = None
            for s in body_entry:
                p = _iter_path(r, s, h[0], ispush, allowed)
                if p:
                    bad = p
            chk.judge(bad is None, "ERRLIST", "conditions-loop:every-condition-listed", r.loc,
                      "an iteration can end without errors.push_back / goals.push_back other than through `weight == 0` or `no error terms`", bad)
    # constraintFunc: every entry of errors, consecutive slots
    cf = P.fn(AS + "::constraintFunc")
    ce = [(b, i, e) for b, i, e in cf.calls() if str(e.get("fn", "")).endswith("AssemblyCondition::calcErrors")]
    if chk.shape(len(ce) == 1, "ERRLIST", "constraintFunc:one-calcErrors-call", cf.loc, "%d calls" % len(ce)):
        b, i, e = ce[0]
        hs = cf.loops_of(b)
        t = cf.blocks[hs[0]].get("term") if len(hs) == 1 else None
        chk.judge(bool(t) and (A + "::errors") in loop_fields(cf, hs[0]), "ERRLIST", "constraintFunc:loop-over-all-errors", cf.loc,
                  "loop condition %s" % (sx_str(t["cond"]) if t else None))
        a = call_args(e)
        slot = a[1] if len(a) > 1 else None
        qp = cf.d["params"][2][0]
        sv = sorted({y[1] for y in sx_find(slot, lambda y: y[0] == "var")} - {qp}) if slot else []
        mv = [v for v in sv if any(sx_find(d["init"], lambda y: y[0] == "call" and y[1].endswith("::getNumErrors")) for _, _, d in cf.events(lambda q: q["k"] == "decl" and q["var"] == v and isinstance(q.get("init"), list)))]
        nx = [v for v in sv if v not in mv]
        chk.judge(len(mv) == 1 and len(nx) == 1 and isinstance(slot, list) and bool(sx_find(slot, lambda y: y[0] == "var" and y[1] == qp)), "ERRLIST", "constraintFunc:slot=qerrs(next,m)", "%s:%d" % (cf.file, e["line"]),
                  "errors are written to %s" % (sx_str(slot) if slot else None))
        if len(mv) == 1 and len(nx) == 1:
            adv = lambda q: q["k"] == "assign" and var_of(q["lhs"]) == nx[0] and q["op"] == "+=" and var_of(q.get("rhs")) == mv[0]
            p = cf.path_exists((b, i), lambda q: q is e, adv, lift=0)
            chk.judge(p is None and any(True for _ in cf.events(adv)), "ERRLIST", "constraintFunc:next+=m-every-iteration", "%s:%d" % (cf.file, e["line"]), "the next condition's slot starts after this one's %s terms" % mv[0], p)
            d0 = [d for _, _, d in cf.events(lambda q: q["k"] == "decl" and q["var"] == nx[0])]
            chk.judge(len(d0) == 1 and isinstance(d0[0].get("init"), list) and d0[0]["init"][0] == "lit" and d0[0]["init"][1] == "0", "ERRLIST", "constraintFunc:next-starts-at-0", cf.loc, "")
    # measurement functions re-set the q's they have just read (IDENTITY) and use the callbacks
    for nm, cb in (("calcCurrentGoal", "objectiveFunc"), ("calcCurrentErrors", "constraintFunc")):
        g = P.fn(AS + "::" + nm)
        cs = [e for _, _, e in g.calls(AS + "::" + cb)]
        ok = len(cs) == 1 and bool(call_args(cs[0])) and isinstance(call_args(cs[0])[0], list) and call_args(cs[0])[0][0] == "call" and call_args(cs[0])[0][1].endswith("::getFreeQsFromInternalState")
        chk.judge(ok, "ERRLIST", "%s:measures-the-current-free-qs" % nm, g.loc, "%s(%s, ...)" % (cb, sx_str(call_args(cs[0])[0]) if cs and call_args(cs[0]) else None))
    # the error norm
    n = P.fn(MEASURE["norm"])
    ed = [d for _, _, d in n.events(lambda q: q["k"] == "decl" and isinstance(q.get("init"), list) and bool(sx_find(q["init"], lambda y: y[0] == "call" and y[1] == AS + "::calcCurrentErrors")))]
    if chk.shape(len(ed) == 1, "ERRLIST", "calcCurrentErrorNorm:error-vector", n.loc, "%d vectors taken from calcCurrentErrors()" % len(ed)):
        ev = ed[0]["var"]
        rets = [rr for _, _, rr in n.ret_events() if not (isinstance(rr["val"], list) and rr["val"][0] == "lit")]
        chk.shape(len(rets) >= 1, "ERRLIST", "calcCurrentErrorNorm:computed-returns", n.loc, "%d" % len(rets))

        def is_inf(v):
            mx = sx_find(v, lambda y: y[0] in ("call", "dcall") and str(y[1]).split("::")[-1] == "max")
            return any(sx_find(m, lambda y: y[0] in ("call", "dcall") and str(y[1]).split("::")[-1] == "abs" and bool(sx_find(y, lambda z: z[0] == "var" and z[1] == ev))) for m in mx) or \
                bool(sx_find(v, lambda y: y[0] == "call" and y[1].endswith("::normInf") and var_of(y[2]) == ev))

        def is_rms(v):
            return (bool(sx_find(v, lambda y: y[0] in ("call", "dcall") and str(y[1]).split("::")[-1] == "sqrt")) and bool(sx_find(v, lambda y: y[0] == "call" and y[1].endswith("::size") and var_of(y[2]) == ev))) or \
                bool(sx_find(v, lambda y: y[0] == "call" and y[1].endswith("::normRMS") and var_of(y[2]) == ev))
        vals = [rr["val"] for rr in rets]
        chk.judge(bool(vals) and all(is_inf(v) or is_rms(v) for v in vals), "ERRLIST", "calcCurrentErrorNorm:every-return-is-a-norm-of-the-error-vector", n.loc,
                  "returned %s" % [sx_str(v)[:80] for v in vals])
        chk.judge(any(is_inf(v) for v in vals), "ERRLIST", "calcCurrentErrorNorm:inf-norm=max(abs(errs))", n.loc, "the infinity norm is the maximum of the ABSOLUTE values")
        chk.judge(any(is_rms(v) for v in vals), "ERRLIST", "calcCurrentErrorNorm:rms-norm=sqrt(e.e/n)", n.loc, "the RMS norm divides by the number of error terms")
    # the optimizer is given the same tolerance before it runs
    for fname in ("assemble()", "track"):
        f = _fn(P, fname)
        for (_F, b, i, e, _body, _in) in sites_of(P, f, lambda q: q["k"] == "call" and q.get("fn") == OPTIMIZE):
            isset = lambda q: q["k"] == "call" and q.get("fn") == "SimTK::Optimizer::setConstraintTolerance" and bool(call_args(q)) and isinstance(call_args(q)[0], list) and call_args(q)[0][0] == "call" and call_args(q)[0][1] == TOLFN
            p = f.path_exists(None, lambda q: q is e, isset, lift=0)
            chk.judge(p is None, "ERRLIST", "%s:optimizer-constraint-tolerance=getErrorToleranceInUse()" % fname.replace("()", ""), "%s:%d" % (f.file, e["line"]),
                      "optimize() is reached without setConstraintTolerance(getErrorToleranceInUse())", p)


def _iter_path(f, start, header, avoid, allowed_edges):
    """a path inside one loop iteration from block `start` back to the loop header that avoids the `avoid` events and uses none of the allowed skip edges"""
    seen, st = set(), [(start, (start,))]
    infeas = f.infeasible_edges()
    while st:
        b, path = st.pop()
        if b in seen:
            continue
        seen.add(b)
        if any(avoid(e) for e in f.blocks[b]["ev"]):
            continue
        if any(e["k"] == "throw" for e in f.blocks[b]["ev"]):
            continue
        for s in f.succs(b):
            if (b, s) in infeas or (b, s) in allowed_edges:
                continue
            if s == header:
                return list(path) + [s]
            if header in f.loops_of(s):
                st.append((s, path + (s,)))
    return None


def _fn(P, fname):
    if fname.endswith(")"):
        return P.fn(A + "::" + fname)
    fs = [g for g in P.fns_named(A + "::" + fname) if g.d.get("params") and len(g.d["params"]) == 1 and "State" not in g.d["params"][0][1]]
    if not fs:
        raise AnalysisBroken("anchor function vanished: %s::%s(Real)" % (A, fname))
    return fs[0]


def run(chk, tier, overlays=()):
    units = units_matching(UNITS)
    P = Program(extract_split(units, hdr=HDR, overlays=overlays))
    chk.units += units
    chk.nfunctions += len(P.fns)
    C = Changers(P)
    chk.rule("TOL", "Assembler::assemble() and track(): every normal return lies behind a successful `error norm <= getErrorToleranceInUse()` test, and the tested norm and the "
             "returned goal are those of the configuration left in the internal State -- measured after the last change of q, or copied from a measurement whose configuration "
             "was restored (snapshot of the free q's taken in the same configuration as the measurement; only free-q changes between snapshot and restoration)")
    for fname in ("assemble()", "track"):
        tol(chk, P, C, _fn(P, fname), fname.replace("()", ""))
    chk.rule("REVERT", "assemble(): when the goal achieved by the optimizer is larger than the initial goal, the initial free q's are restored and the initial goal is returned")
    revert(chk, P, C, _fn(P, "assemble()"))
    chk.rule("LOCKED", "q's of the internal State are changed only by the tabled functions; optimizer callbacks reach the State only through setInternalStateFromFreeQs, which writes "
             "q[freeQ2Q[fx]] only; freeQ2Q receives only q indices known not to be in lockedQs; prescribed mobilizers, user-locked mobilizers and user-locked q's all reach lockedQs")
    locked(chk, P, C)
    chk.rule("BOUNDS", "the lower/upper arrays are passed to the optimizer system (in this order) whenever they were allocated, and are filled with range[0] / range[1] at the free-q index of the restricted q")
    bounds(chk, P)
    chk.rule("ERRLIST", "infinite-weight conditions with error terms are all listed in `errors`, constraintFunc evaluates every listed condition into consecutive slots, the error norm is "
             "the max-abs / RMS of that vector, the measuring helpers evaluate the current free q's, and the optimizer gets the same tolerance")
    errlist(chk, P)
    # the assembly goals' values and gradients: frame adjacency of every rotation / transform product with parseable monogram names
    frames(chk, P, re.compile(r"/Simbody/src/AssemblyCondition_(Markers|OrientationSensors)\.cpp$"), {}, floor=4)
    chk.floor("TOL", 14)
    chk.floor("LOCKED", 18)
    chk.floor("BOUNDS", 7)
    chk.floor("ERRLIST", 12)
    chk.floor("REVERT", 5)
    chk.assumptions += ["the Optimizer calls back only the AssemblerSystem functions it is given (its own code is C39, not decided) and honours the parameter limits it receives",
                        "convergence, 'the goal reaches zero for achievable targets', ObservedPointFitter and LocalEnergyMinimizer (no test of their result exists in the code) are not decided",
                        "exception edges into the catch block of the optimize() call are not in the CFG; the code after the handler is the same gate as on the normal path"]


_F = "Simbody/src/Assembler.cpp"
_H = "Simbody/include/simbody/internal/Assembler.h"
MUTATIONS = [
    dict(name="initial error/goal measured before prescribed motion is applied (pre-fix code)", arm=True, file=_F,
         old="    system.realize(internalState, Stage::Time);\n    system.prescribeQ(internalState);\n    system.realize(internalState, Stage::Position);\n\n    const Real initialErrorNorm = calcCurrentErrorNorm();\n    const Real initialGoalValue = calcCurrentGoal(); // squared, >=0\n",
         new="    const Real initialErrorNorm = calcCurrentErrorNorm();\n    const Real initialGoalValue = calcCurrentGoal(); // squared, >=0\n    system.realize(internalState, Stage::Time);\n    system.prescribeQ(internalState);\n    system.realize(internalState, Stage::Position);\n",
         expect="measurement-and-snapshot-same-configuration"),
    dict(name="final tolerance test dropped from track()", arm=True, file=_F,
         old="    const Real tolAchieved = calcCurrentErrorNorm();\n    if (tolAchieved > getErrorToleranceInUse())\n        SimTK_THROW3(TrackFailed, \n            \"Unable to achieve required assembly error tolerance.\",\n            tolAchieved, getErrorToleranceInUse());\n",
         new="    const Real tolAchieved = calcCurrentErrorNorm();\n    (void)tolAchieved;\n", expect="TOL:track:return#1:gated-by-tolerance-test"),
    dict(name="final test uses the norm measured before the last state update", file=_F,
         old="    // This will ensure that the internalState has its q's set to match the\n    // parameters.\n    setInternalStateFromFreeQs(freeQs);\n\n    for (unsigned i=0; i < reporters.size(); ++i)\n        reporters[i]->handleEvent(internalState);\n\n    Real tolAchieved = calcCurrentErrorNorm();\n    Real goalAchieved = calcCurrentGoal();\n",
         new="    Real tolAchieved = calcCurrentErrorNorm();\n    Real goalAchieved = calcCurrentGoal();\n    // This will ensure that the internalState has its q's set to match the\n    // parameters.\n    setInternalStateFromFreeQs(freeQs);\n\n    for (unsigned i=0; i < reporters.size(); ++i)\n        reporters[i]->handleEvent(internalState);\n\n",
         expect="no-change-of-q-after-it"),
    dict(name="revert forgets to report the initial goal", file=_F,
         old="        tolAchieved = initialErrorNorm;\n        goalAchieved = initialGoalValue;\n", new="        tolAchieved = initialErrorNorm;\n", expect="REVERT:assemble:worse-goal=>initial-goal-reported"),
    dict(name="revert removed", file=_F,
         old="        setInternalStateFromFreeQs(initialFreeQs);\n        tolAchieved = initialErrorNorm;\n        goalAchieved = initialGoalValue;\n", new="        (void)initialFreeQs;\n", expect="REVERT:assemble:worse-goal=>initial-free-qs-restored"),
    dict(name="setInternalStateFromFreeQs writes q by free index", arm=True, file=_H,
         old="        q[getQIndexOfFreeQ(fx)] = freeQs[fx];\n    system.realize(internalState, Stage::Position);", new="        q[fx] = freeQs[fx];\n    system.realize(internalState, Stage::Position);", expect="setInternalStateFromFreeQs:writes-free-qs-only"),
    dict(name="locked test inverted when filling freeQ2Q", file=_F,
         old="            if (lockedQs.find(qx) == lockedQs.end()) {\n                q2FreeQ[qx] = nxtFree;", new="            if (lockedQs.find(qx) != lockedQs.end()) {\n                q2FreeQ[qx] = nxtFree;", expect="freeQ2Q:write#"),
    dict(name="prescribed mobilizers no longer locked", file=_F,
         old="        if (mobod.getQMotionMethod(internalState) == Motion::Free)\n            continue;\n        const QIndex         q0     = mobod.getFirstQIndex(internalState);\n        const int            nq     = mobod.getNumQ(internalState);\n        for (int i=0; i<nq; ++i)\n            lockedQs.insert(QIndex(q0+i));",
         new="        if (mobod.getQMotionMethod(internalState) == Motion::Free)\n            continue;\n        const QIndex         q0     = mobod.getFirstQIndex(internalState);\n        const int            nq     = mobod.getNumQ(internalState);\n        (void)q0; (void)nq;",
         expect="lockedQs<-prescribed"),
    dict(name="objective callback writes the whole q vector", file=_F,
         old="    {   ++nEvalObjective;\n\n        if (new_parameters)\n            setInternalStateFromFreeQs(parameters);\n",
         new="    {   ++nEvalObjective;\n\n        if (new_parameters)\n            setInternalStateFromFreeQs(parameters);\n        assembler.internalState.updQ() *= 1;\n", expect="LOCKED:"),
    dict(name="upper and lower limits swapped", arm=True, file=_F,
         old="        asmSys->setParameterLimits(lower, upper);", new="        asmSys->setParameterLimits(upper, lower);", expect="BOUNDS:setParameterLimits(lower,upper)"),
    dict(name="seeded (sub-agent): limits given to the optimizer system after the Optimizer chose its algorithm", arm=True, file=_F,
         old="    if (lower.size())\n        asmSys->setParameterLimits(lower, upper);\n\n\n    // Optimizer will choose LBFGS for unconstrained (or just bounds-constrained)\n    // problems, InteriorPoint for constrained problems.\n    optimizer = new Optimizer(*asmSys\n        //,InteriorPoint\n        //,LBFGS\n        //,LBFGSB\n        );\n",
         new="    optimizer = new Optimizer(*asmSys\n        );\n    if (lower.size())\n        asmSys->setParameterLimits(lower, upper);\n",
         expect="BOUNDS:setParameterLimits:before-the-Optimizer-is-constructed"),
    dict(name="upper bound filled from range[0]", file=_F, old="            upper[fx] = r[1];", new="            upper[fx] = r[0];", expect="BOUNDS:upper[fx]=range[1]"),
    dict(name="infinite-weight test replaced by >= 1", file=_F,
         old="        if (weights[acx] == Infinity) {\n            const int n", new="        if (weights[acx] >= 1) {\n            const int n", expect="ERRLIST:"),
    dict(name="constraintFunc forgets to advance the slot", arm=True, file=_F,
         old="            if (stat != 0)\n                return stat;\n            nxtEqn += m;\n        }\n\n        //cout << \"    err=\"", new="            if (stat != 0)\n                return stat;\n        }\n\n        //cout << \"    err=\"",
         expect="constraintFunc:next+=m-every-iteration"),
    dict(name="infinity norm without abs", file=_F, old="        : max(abs(errs));                       // infinity norm", new="        : max(errs);                            // infinity norm", expect="calcCurrentErrorNorm:inf-norm"),
    dict(name="track gives the optimizer the accuracy as constraint tolerance", file=_F,
         old="    Vector freeQs = getFreeQsFromInternalState();\n    optimizer->setConvergenceTolerance(getAccuracyInUse());\n    optimizer->setConstraintTolerance(getErrorToleranceInUse());",
         new="    Vector freeQs = getFreeQsFromInternalState();\n    optimizer->setConvergenceTolerance(getAccuracyInUse());\n    optimizer->setConstraintTolerance(getAccuracyInUse());", expect="track:optimizer-constraint-tolerance"),
]
