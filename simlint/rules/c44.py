"""C44 -- Impulse solvers return impulses satisfying contact conditions (PGS solver: projection discipline).

Whether projected Gauss-Seidel converges, and the values it converges to, are numerical and NOT decided.  What is visible in the shape of
PGSImpulseSolver.cpp is *that every conditional impulse it can return has been projected onto its admissible set after its last update*:

 PROJECT  in solve()'s sweep every row family that carries an inequality (unilateral normals, contact friction, bounded scalars,
          state-limited friction, constraint-limited friction) is updated by doUpdate/doUpdates and then, on every path of the same
          inner iteration, handed to the family's bound function with the SAME index (set) and the impulse vector pi: a unilateral
          normal to boundUnilateral(sign, pi[Nk]), a bounded scalar to boundScalar(lb, pi[rx], ub), friction rows to
          boundVector(mu*N, Fk, pi) / boundFriction(mu, Nk, Fk, pi); only the unconditional family is updated without a projection;
          normals are swept before the friction rows that are limited by them; nothing writes pi after the sweep loop.
 CLAMP    the four bound functions do project: boundUnilateral zeroes pi exactly when sign*pi > 0; boundScalar moves pi to ub when
          pi > ub and to lb when pi < lb; boundVector / boundFriction return early exactly when the squared length is within the squared
          limit and otherwise scale EVERY component of the index set by sqrt(limit^2 / length^2), the length being summed over the
          whole set.
 REPORT   solve() returns true only when the enforced-equation RMS error was tested below m_convergenceTol (or nothing participates).

The PLUS solver (a Newton iteration on smoothed complementarity functions) has no projection step to reason about and is not covered."""
import re
from ..facts import extract, units_matching, Program, AnalysisBroken, sx_find, sx_str
from ..match import call_args, call_obj, var_of, field_of, ev_write, known_edges, only_via, expand_locals
from ..columns import _loop_var, _steps, _lit, _iter_bypass, range_for

UNITS = r"/Simbody/src/PGSImpulseSolver\.cpp$"
# family (the solve() parameter the loop's row record comes from) -> (update routine, bound routine)
FAMILY = {
    "unconditional": ("doUpdates", None),
    "uniContact#normal": ("doUpdate", "boundUnilateral"),
    "uniContact#friction": ("doUpdates", "boundVector"),
    "bounded": ("doUpdate", "boundScalar"),
    "stateLtdFriction": ("doUpdates", "boundVector"),
    "consLtdFriction": ("doUpdates", "boundFriction"),
}


def _strip(x):
    while isinstance(x, list) and x and x[0] in ("conv", "cast", "ctor"):
        if x[0] == "conv":
            x = x[1]
        elif x[0] == "cast":
            x = x[2]
        else:
            if len(x[2]) != 1:
                break
            x = x[2][0]
    return x


def _idx_key(f, x, at_ev):
    """what an index argument denotes: the member of the row record it was read from (rt.m_Nk, rt.m_Fk, rt.m_ix), locals followed"""
    x = _strip(x)
    if isinstance(x, list) and x[:1] == ["var"]:
        ds = [d for _, _, d in f.events(lambda q: q["k"] == "decl" and q["var"] == x[1] and q.get("init") is not None)]
        live = [d for d in ds if f.path_exists(_pos(f, d), lambda q: q is at_ev, lambda q: any(q is o for o in ds if o is not d), lift=0) is not None]
        if len(live) == 1:
            return _idx_key(f, live[0]["init"], live[0])
    ms = sx_find(x, lambda y: y[0] == "mem")
    return ms[0][2].split("::")[-1] if ms else sx_str(x)


def _pos(f, ev):
    for b, i, e in f.events(lambda q: q is ev):
        return (b, i)
    return None


def project(chk, P):
    fs = [g for g in P.all_fns() if g.name.endswith("PGSImpulseSolver::solve")]
    if not chk.shape(len(fs) == 1, "PROJECT", "solve:found", "", "%d" % len(fs)):
        return
    f = fs[0]
    params = [p_[0] for p_ in f.d["params"]]
    # roles, not names: the impulse vector is the parameter handed as last argument to the update routines; a row family is the parameter whose element
    # type is that family's record type
    lastargs = {var_of(call_args(e)[-1]) for _, _, e in f.calls() if re.search(r"::doUpdates?$", str(e.get("fn", "")))}
    pi = next(iter(lastargs)) if len(lastargs) == 1 else None
    chk.shape(pi in params, "PROJECT", "solve:pi-parameter", f.loc, "the impulse vector is the parameter every update routine writes: %s" % sorted(str(x) for x in lastargs))
    FAMTYPE = {"UncondRT": "unconditional", "UniContactRT": "uniContact", "UniSpeedRT": "uniSpeed", "BoundedRT": "bounded", "StateLtdFrictionRT": "stateLtdFriction",
               "ConstraintLtdFrictionRT": "consLtdFriction"}
    famof = {}
    for pn, pt in f.d["params"]:
        for tn, fam_ in FAMTYPE.items():
            if re.search(r"\b%s\b" % tn, pt):
                famof[pn] = fam_
    loops = f.loops()
    main = [h for h in loops if isinstance(_loop_var(f, h)[1], list) and bool(sx_find(_loop_var(f, h)[1], lambda y: y[0] == "mem" and y[2].endswith("::m_maxIters")))]
    if not chk.shape(len(main) == 1, "PROJECT", "solve:sweep-loop", f.loc, "%d loops bounded by m_maxIters" % len(main)):
        return
    M = main[0]
    inner = sorted((h for h in loops if h != M and h in loops[M] and not any(h in loops[o] for o in loops if o not in (M, h) and o in loops[M])), key=lambda h: -h)
    seen = []
    is_upd = lambda q: q["k"] == "call" and re.search(r"::doUpdates?$", str(q.get("fn", ""))) is not None
    is_bnd = lambda q: q["k"] == "call" and re.search(r"::bound(Unilateral|Scalar|Vector|Friction)$", str(q.get("fn", ""))) is not None
    for h in inner:
        body = loops[h]
        evs = [(b, i, e) for b in sorted(body, reverse=True) for i, e in enumerate(f.blocks[b]["ev"])]
        ups = [(b, i, e) for b, i, e in evs if is_upd(e)]
        if not ups:
            continue
        # the family: the solve() parameter the row record `rt` refers to
        fam = None
        for b, i, e in evs:
            if e["k"] == "decl" and isinstance(e.get("init"), list):
                src = [y[1] for y in sx_find(e["init"], lambda y: y[0] == "var" and y[1] in famof)]
                if src:
                    fam = famof[src[0]]
                    break
        if not chk.shape(fam is not None and len(ups) == 1, "PROJECT", "loop@%d:family" % (f.blocks[h]["ev"][0]["line"] if f.blocks[h]["ev"] else h), f.loc, "row family %s, %d update calls" % (fam, len(ups))):
            continue
        ub, ui, u = ups[0]
        bnds = [(b, i, e) for b, i, e in evs if is_bnd(e)]
        un = str(u["fn"]).split("::")[-1]
        if fam == "uniContact":
            fam = "uniContact#normal" if un == "doUpdate" else "uniContact#friction"
        seen.append(fam)
        want_u, want_b = FAMILY.get(fam, (None, None))
        site = "%s:%d" % (f.file, u["line"])
        chk.judge(un == want_u and var_of(call_args(u)[-1]) == pi, "PROJECT", fam + ":update", site, "%s(..., %s)" % (un, sx_str(call_args(u)[-1])))
        if want_b is None:
            chk.judge(not bnds, "PROJECT", fam + ":no-projection-needed", site, "unconditional rows are solved as equations")
            continue
        ok1 = len(bnds) == 1 and str(bnds[0][2]["fn"]).split("::")[-1] == want_b
        chk.judge(ok1, "PROJECT", fam + ":projected-by-" + want_b, site, "bound calls in this loop: %s" % [str(x[2]["fn"]).split("::")[-1] for x in bnds])
        if not ok1:
            continue
        bb, bi, bnd = bnds[0]
        byp = _iter_bypass(f, h, body, (ub, ui), [bnd])
        chk.judge(byp is None, "PROJECT", fam + ":projection-on-every-path-after-the-update", "%s:%d" % (f.file, bnd["line"]), "an iteration can end after the update without the projection", byp)
        # an iteration may skip the projection only for reasons that do not change from sweep to sweep: the limit of a projection follows the
        # current impulses (mu*|N|, the sign test ..), so a row that is projected at all is projected in EVERY sweep.  The branches that lead
        # around the projection must therefore not read the impulse vector (a skip on `pi[Nk] == 0` leaves the previous sweep's friction
        # impulse in place under a limit that has since dropped to zero).
        infeas = f.infeasible_edges()
        fwd, st = set(), [h]
        while st:
            x = st.pop()
            if x in fwd or x not in body:
                continue
            fwd.add(x)
            if any(q is bnd for q in f.blocks[x]["ev"]):
                continue
            st += [s_ for s_ in f.succs(x) if (x, s_) not in infeas]
        back, st = set(), [p_ for p_ in f.preds()[h] if p_ in body]
        while st:
            x = st.pop()
            if x in back or x not in body or x == h:
                continue
            if any(q is bnd for q in f.blocks[x]["ev"]):
                continue
            back.add(x)
            st += [p_ for p_ in f.preds()[x]]
        around = (fwd & back) | ({h} if back else set())
        reads_pi = []
        for x in sorted(around):
            t = f.blocks[x].get("term")
            c = t.get("cond") if t else None
            if isinstance(c, list) and sx_find(expand_locals(f, c, depth=3), lambda y: y == ["var", pi]):
                reads_pi.append("line %s: %s" % (t.get("line"), sx_str(c)[:60]))
        chk.judge(not reads_pi, "PROJECT", fam + ":projection-skipped-only-for-sweep-invariant-reasons", "%s:%d" % (f.file, bnd["line"]),
                  "a branch that leads around the projection reads the impulse vector: %s" % "; ".join(reads_pi) if reads_pi else "guards of the skip paths do not read %s" % pi)
        # same rows: the update's row argument and the bound's row / element argument denote the same member of the row record
        urow = _idx_key(f, call_args(u)[0], u)
        ba = call_args(bnd)
        if want_b in ("boundUnilateral", "boundScalar"):
            el = ba[1]
            el = _strip(el)
            okr = isinstance(el, list) and el[0] in ("opc", "idx") and var_of(el[2]) == pi and _idx_key(f, el[3], bnd) == urow
            shown = sx_str(el)
        elif want_b == "boundVector":
            okr = _idx_key(f, ba[1], bnd) == urow and var_of(ba[2]) == pi
            shown = "%s, %s" % (sx_str(ba[1]), sx_str(ba[2]))
        else:
            okr = _idx_key(f, ba[2], bnd) == urow and var_of(ba[3]) == pi and _idx_key(f, ba[1], bnd) != urow
            shown = "%s, %s, %s" % (sx_str(ba[1]), sx_str(ba[2]), sx_str(ba[3]))
        chk.judge(okr, "PROJECT", fam + ":same-rows-updated-and-projected", "%s:%d" % (f.file, bnd["line"]), "update rows %s; projected %s" % (urow, shown))
        # the condition is recorded in the row record
        rec = [e for b, i, e in evs if ev_write(e) and isinstance(ev_write(e)[2], list) and bool(sx_find(ev_write(e)[2], lambda y: y == bnd["x"]))] or \
              [e for b, i, e in evs if e["k"] == "assign" and e.get("rhs") == bnd["x"]]
        chk.judge(bool(rec), "PROJECT", fam + ":condition-recorded", "%s:%d" % (f.file, bnd["line"]), "the result of the projection is stored in the row record (reported condition)")
    chk.judge(sorted(seen) == sorted(FAMILY), "PROJECT", "solve:all-families-swept", f.loc, "families swept: %s" % seen)
    if "uniContact#normal" in seen and "uniContact#friction" in seen:
        chk.judge(seen.index("uniContact#normal") < seen.index("uniContact#friction"), "PROJECT", "normals-before-their-friction", f.loc, "sweep order %s" % seen)
    # nothing writes pi after the sweep loop
    after = []
    for b, i, e in f.events(lambda q: (bool(ev_write(q)) and var_of(ev_write(q)[0]) == pi) or is_upd(q) or is_bnd(q)):
        if b not in loops[M] and f.path_exists((M, len(f.blocks[M]["ev"]) - 1), lambda q, e=e: q is e, lambda q: False, avoid_blocks=set(), lift=0) is not None:
            # reachable from the loop header through the exit edge only
            if f.path_exists(None, lambda q, e=e: q is e, lambda q: False, avoid_blocks={M}, lift=0) is None:
                after.append(e)
    chk.judge(not after, "PROJECT", "solve:pi-final-after-the-last-projection", f.loc, "writes of pi after the sweep loop: %s" % [a.get("line") for a in after])


def clamp(chk, P):
    def fn(n):
        fs = [g for g in P.all_fns() if g.name.endswith("::" + n)]
        chk.shape(len(fs) == 1, "CLAMP", n + ":found", "", "%d" % len(fs))
        return fs[0] if len(fs) == 1 else None
    # boundUnilateral
    f = fn("boundUnilateral")
    if f:
        sg, pv = f.d["params"][0][0], f.d["params"][1][0]
        viol = lambda c: isinstance(c, list) and len(c) == 4 and c[0] == "op" and c[1] == ">" and _lit(c[3], ("0",)) and {y[1] for y in sx_find(c[2], lambda y: y[0] == "var")} == {sg, pv} and \
            bool(sx_find(c[2], lambda y: y[0] == "op" and y[1] == "*"))
        ok_ = lambda c: isinstance(c, list) and len(c) == 4 and c[0] == "op" and c[1] == "<=" and _lit(c[3], ("0",)) and {y[1] for y in sx_find(c[2], lambda y: y[0] == "var")} == {sg, pv}
        edges = known_edges(f, viol, ok_)
        ws = [(b, e) for b, _, e in f.events(lambda q: q["k"] == "assign" and q["lhs"] == ["var", pv])]
        chk.judge(len(ws) == 1 and _lit(ws[0][1].get("rhs"), ("0",)) and bool(edges) and only_via(f, ws[0][0], edges), "CLAMP", "boundUnilateral:pi=0-exactly-when-sign*pi>0", f.loc,
                  "writes of pi: %s" % [sx_str(w[1].get("rhs")) for w in ws])
        byp = f.path_exists(None, "exit", lambda q: False, avoid_blocks={g for g, _ in edges} if edges else set(), lift=0) if edges else [0]
        chk.judge(byp is None, "CLAMP", "boundUnilateral:tested-on-every-path", f.loc, "")
    # boundScalar
    f = fn("boundScalar")
    if f:
        lb, pv, ub = [p_[0] for p_ in f.d["params"]]
        for bound, op, nop in ((ub, ">", "<="), (lb, "<", ">=")):
            e_ = known_edges(f, lambda c, bound=bound, op=op: isinstance(c, list) and len(c) == 4 and c[0] == "op" and c[1] == op and c[2] == ["var", pv] and c[3] == ["var", bound],
                             lambda c, bound=bound, nop=nop: isinstance(c, list) and len(c) == 4 and c[0] == "op" and c[1] == nop and c[2] == ["var", pv] and c[3] == ["var", bound])
            ws = [(b, e) for b, _, e in f.events(lambda q, bound=bound: q["k"] == "assign" and q["lhs"] == ["var", pv] and q.get("rhs") == ["var", bound])]
            chk.judge(len(ws) == 1 and bool(e_) and only_via(f, ws[0][0], e_), "CLAMP", "boundScalar:pi=%s-exactly-when-pi%s%s" % (bound, op, bound), f.loc, "")
        allw = [e for _, _, e in f.events(lambda q: q["k"] == "assign" and q["lhs"] == ["var", pv])]
        chk.judge(len(allw) == 2, "CLAMP", "boundScalar:no-other-write", f.loc, "%d writes of pi" % len(allw))
    # boundVector / boundFriction
    for n, lenset_pos, limit_desc in (("boundVector", 1, "maxLen"), ("boundFriction", 2, "mu*|N|")):
        f = fn(n)
        if not f:
            continue
        ps = [p_[0] for p_ in f.d["params"]]
        IV, piv = ps[lenset_pos], ps[-1]
        loops = f.loops()
        # the squared length accumulated over the whole index set
        acc = {}
        for h, body in loops.items():
            iv, c = _loop_var(f, h)
            for b in body:
                for e in f.blocks[b]["ev"]:
                    w = ev_write(e)
                    if w and w[1] == "+=" and isinstance(w[0], list) and w[0][:1] == ["var"]:
                        sets = {y[1] for y in sx_find(w[2], lambda y: y[0] == "var" and y[1] in ps)}
                        rf = range_for(f, h)
                        if rf is not None and var_of(rf[0]) in ps and sx_find(w[2], lambda y: y == ["var", rf[1]]):
                            sets.add(var_of(rf[0]))      # `for (ix : IV) .. pi[ix]` mentions IV through its element
                        acc[w[0][1]] = (h, iv, c, sets, e)
        f2 = [v for v, a in acc.items() if IV in a[3] and piv in a[3]]
        if not chk.shape(len(f2) == 1, "CLAMP", n + ":squared-length", f.loc, "accumulators over %s: %s" % (IV, f2)):
            continue
        L2 = f2[0]
        h, iv, c, sets, e = acc[L2]
        okl = _whole_set(f, h, loops, IV) is not None
        chk.judge(okl and bool(sx_find(ev_write(e)[2], lambda y: y[0] in ("call", "dcall") and str(y[1]).split("::")[-1] == "square")), "CLAMP", n + ":length-summed-over-the-whole-set", "%s:%d" % (f.file, e["line"]),
                  "%s += %s for %s" % (L2, sx_str(ev_write(e)[2]), sx_str(c)))
        # early return exactly when within the limit
        lim = None
        within = lambda c_: isinstance(c_, list) and len(c_) == 4 and c_[0] == "op" and c_[1] == "<=" and c_[2] == ["var", L2] and isinstance(c_[3], list) and c_[3][:1] == ["var"]
        beyond = lambda c_: isinstance(c_, list) and len(c_) == 4 and c_[0] == "op" and c_[1] == ">" and c_[2] == ["var", L2] and isinstance(c_[3], list) and c_[3][:1] == ["var"]
        e_in = known_edges(f, within, beyond)
        e_out = known_edges(f, beyond, within)
        for b_, blk in f.blocks.items():
            t = blk.get("term")
            if t and isinstance(t.get("cond"), list):
                for y in sx_find(t["cond"], lambda y: within(y) or beyond(y)):
                    lim = y[3][1]
        chk.judge(bool(e_in) and bool(e_out) and lim is not None, "CLAMP", n + ":compares-length-with-limit", f.loc, "tests %s against %s" % (L2, lim))
        if lim is None:
            continue
        scales = [(b, e) for b, _, e in f.events(lambda q: bool(ev_write(q)) and ev_write(q)[1] == "*=" and var_of(ev_write(q)[0]) == piv)]
        oks = len(scales) == 1 and only_via(f, scales[0][0], e_out)
        chk.judge(oks, "CLAMP", n + ":scaled-exactly-when-beyond-the-limit", f.loc, "%d scaling writes of %s" % (len(scales), piv))
        if len(scales) == 1:
            sb, se = scales[0]
            hs = f.loops_of(sb)
            okall = False
            for h2 in hs:
                el = _whole_set(f, h2, loops, IV, at_line=se["line"])
                if el is not None:
                    okall = bool(sx_find(ev_write(se)[0], el))
            chk.judge(okall, "CLAMP", n + ":every-component-of-the-set-scaled", "%s:%d" % (f.file, se["line"]), "%s *= scale for every index of %s" % (sx_str(ev_write(se)[0]), IV))
            sc = var_of(ev_write(se)[2])
            sd = [d for _, _, d in f.events(lambda q: q["k"] == "decl" and q["var"] == sc)]
            oksc = len(sd) == 1 and bool(sx_find(sd[0]["init"], lambda y: y[0] in ("call", "dcall") and str(y[1]).split("::")[-1] == "sqrt" and
                                                   bool(sx_find(y, lambda z: z[0] == "op" and z[1] == "/" and z[2] == ["var", lim] and z[3] == ["var", L2]))))
            chk.judge(oksc, "CLAMP", n + ":scale=sqrt(limit^2/length^2)", f.loc, "scale = %s" % (sx_str(sd[0]["init"]) if sd else None))


def _whole_set(f, h, loops, IV, at_line=None):
    """loop h visits every element of the index set IV once: `for (i = 0; i < IV.size(); ++i)` (element IV[i]) or `for (ix : IV)` (element ix).
    Returns a predicate recognising the current element, or None."""
    rf = range_for(f, h)
    if rf is not None:
        return (lambda y: y == ["var", rf[1]]) if var_of(rf[0]) == IV and rf[0][:1] == ["var"] else None
    iv, c = _loop_var(f, h)
    if not iv or not isinstance(c, list) or c[1] != "<":
        return None
    # (the declaration that reaches the loop is the nearest one before it)
    ds = [d for _, _, d in f.events(lambda q: q["k"] == "decl" and q["var"] == iv)]
    if at_line is not None:
        ds = sorted([d for d in ds if d["line"] <= at_line], key=lambda d: d["line"])[-1:]
    if not any(_lit(d.get("init"), ("0",)) for d in ds):
        return None
    if not sx_find(c[3], lambda y: y[0] == "call" and y[1].endswith("::size") and var_of(y[2]) == IV) or _steps(f, loops[h], iv) != ["++"]:
        return None
    return lambda y: y[0] in ("opc", "idx") and var_of(y[2]) == IV and len(y) > 3 and _strip(y[3]) == ["var", iv]


def report(chk, P):
    fs = [g for g in P.all_fns() if g.name.endswith("PGSImpulseSolver::solve")]
    if not fs:
        return
    f = fs[0]
    rets = [r for _, _, r in f.ret_events()]
    vret = [r for r in rets if isinstance(r.get("val"), list) and r["val"][:1] == ["var"]]
    lit_true = [r for r in rets if _lit(r.get("val"), ("true",))]
    chk.shape(len(vret) == 1, "REPORT", "solve:returns-converged", f.loc, "%d returns of a variable, %d of literal true" % (len(vret), len(lit_true)))
    if len(vret) != 1:
        return
    cv = vret[0]["val"][1]
    small = lambda c: isinstance(c, list) and len(c) == 4 and c[0] == "op" and c[1] == "<" and isinstance(c[2], list) and c[2][:1] == ["var"] and bool(sx_find(c[3], lambda y: y[0] == "mem" and y[2].endswith("::m_convergenceTol")))
    notsmall = lambda c: isinstance(c, list) and len(c) == 4 and c[0] == "op" and c[1] == ">=" and isinstance(c[2], list) and c[2][:1] == ["var"] and bool(sx_find(c[3], lambda y: y[0] == "mem" and y[2].endswith("::m_convergenceTol")))
    edges = known_edges(f, small, notsmall)
    sets = [(b, e) for b, _, e in f.events(lambda q: q["k"] == "assign" and q["lhs"] == ["var", cv] and _lit(q.get("rhs"), ("true",)))]
    chk.judge(len(sets) == 1 and bool(edges) and only_via(f, sets[0][0], edges), "REPORT", "solve:converged=true-only-under-error<m_convergenceTol", f.loc, "%d assignments converged = true" % len(sets))
    d = [dd for _, _, dd in f.events(lambda q: q["k"] == "decl" and q["var"] == cv)]
    chk.judge(len(d) == 1 and _lit(d[0].get("init"), ("false",)), "REPORT", "solve:converged-starts-false", f.loc, "")
    # the tested error is the enforced-equation RMS accumulated in this sweep
    tv = None
    for b_, blk in f.blocks.items():
        t = blk.get("term")
        if t and isinstance(t.get("cond"), list):
            for y in sx_find(t["cond"], lambda y: small(y) or notsmall(y)):
                tv = y[2][1]
    chk.judge(tv is not None, "REPORT", "solve:error-variable", f.loc, "tested variable %s" % tv)
    # an early `return true` is taken only when nothing participates (p == 0)
    for r in lit_true:
        b = _pos(f, r)[0]
        z = known_edges(f, lambda c: isinstance(c, list) and len(c) == 4 and c[0] == "op" and c[1] == "==" and _lit(c[3], ("0",)), lambda c: False)
        chk.judge(bool(z) and only_via(f, b, z), "REPORT", "solve:early-true-only-when-nothing-participates@%d" % (r["line"] - f.line), "%s:%d" % (f.file, r["line"]), "")


def run(chk, tier, overlays=()):
    units = units_matching(UNITS)
    P = Program(extract(units, hdr="^$", overlays=overlays))
    chk.units += units
    chk.nfunctions += len(P.fns)
    chk.rule("PROJECT", "PGS sweep: every inequality-carrying row family is updated and then, on every path of the same inner iteration, projected by its bound function applied to "
             "the same rows of pi (normal -> boundUnilateral, bounded -> boundScalar, friction -> boundVector / boundFriction); normals are swept before friction; all six families "
             "are swept; pi is not written after the sweep loop")
    project(chk, P)
    chk.rule("CLAMP", "the bound functions project: boundUnilateral zeroes exactly under sign*pi > 0; boundScalar clamps to ub / lb exactly under pi > ub / pi < lb; boundVector and "
             "boundFriction scale every component of the index set by sqrt(limit^2/length^2) exactly when the squared length (summed over the whole set) exceeds the squared limit")
    clamp(chk, P)
    chk.rule("REPORT", "solve() reports convergence only when the enforced-equation error was tested below m_convergenceTol")
    report(chk, P)
    chk.floor("PROJECT", 25)
    chk.floor("CLAMP", 14)
    chk.floor("REPORT", 4)
    chk.assumptions += ["convergence of projected Gauss-Seidel and the values it converges to are numerical and not decided",
                        "the PLUS solver (Newton iteration on smoothed complementarity functions, no projection step) is not covered",
                        "that the caller (the semi-explicit time stepper) builds the row families correctly is not decided"]


_F = "Simbody/src/PGSImpulseSolver.cpp"
MUTATIONS = [
    dict(name="bounded rows updated but no longer clamped", arm=True, file=_F,
         old="            rt.m_boundedCond=boundScalar(rt.m_lb, pi[rx], rt.m_ub);\n            if (rt.m_boundedCond == Engaged)", new="            if (rt.m_boundedCond == Engaged)", expect="PROJECT:bounded:projected-by-boundScalar"),
    dict(name="unilateral normal projected only when it was active before", arm=True, file=_F,
         old="            rt.m_contactCond = boundUnilateral(rt.m_sign, pi[Nk]);", new="            if (rt.m_contactCond == UniActive) rt.m_contactCond = boundUnilateral(rt.m_sign, pi[Nk]);",
         expect="PROJECT:uniContact#normal:projection-on-every-path-after-the-update"),
    dict(name="constraint-limited friction projected against the friction rows themselves", file=_F,
         old="            rt.m_frictionCond=boundFriction(rt.m_effMu,Nk,Fk,pi);", new="            rt.m_frictionCond=boundFriction(rt.m_effMu,Fk,Fk,pi);", expect="PROJECT:consLtdFriction:same-rows-updated-and-projected"),
    dict(name="boundUnilateral clamps the pushing direction", arm=True, file=_F,
         old="    if (sign*pi > 0) {pi=0; return ImpulseSolver::UniOff;}", new="    if (sign*pi < 0) {pi=0; return ImpulseSolver::UniOff;}", expect="CLAMP:boundUnilateral:pi=0-exactly-when-sign*pi>0"),
    dict(name="boundScalar moves a too-small impulse to the upper bound", file=_F,
         old="    else if (pi < lb) {pi=lb; return ImpulseSolver::SlipLow;}", new="    else if (pi < lb) {pi=ub; return ImpulseSolver::SlipLow;}", expect="CLAMP:boundScalar:"),
    dict(name="boundVector scales all but the first component", file=_F,
         old="    for (unsigned i=0; i<IV.size(); ++i) pi[IV[i]] *= scale;\n    return ImpulseSolver::Sliding;\n}\n\n/** Given index set IN",
         new="    for (unsigned i=1; i<IV.size(); ++i) pi[IV[i]] *= scale;\n    return ImpulseSolver::Sliding;\n}\n\n/** Given index set IN", expect="CLAMP:boundVector:every-component-of-the-set-scaled"),
    dict(name="friction swept before the normals that limit it", file=_F,
         old="            if (rt.m_type != Participating)\n                continue;\n            const MultiplierIndex Nk = rt.m_Nk;\n            const Real rowSum=doRowSum(participating,Nk,A,D,pi);\n            const Real er2=doUpdate(Nk,A,D,verrStart,sor,rowSum,pi);\n            sum2all += er2;\n            rt.m_contactCond = boundUnilateral(rt.m_sign, pi[Nk]);",
         new="            if (rt.m_type != Participating)\n                continue;\n            const MultiplierIndex Nk = rt.m_Nk;\n            const Real rowSum=doRowSum(participating,Nk,A,D,pi);\n            const Real er2=doUpdate(Nk,A,D,verrStart,sor,rowSum,pi);\n            sum2all += er2;\n            rt.m_contactCond = ImpulseSolver::UniActive; (void)boundUnilateral;",
         expect="PROJECT:uniContact#normal:projected-by-boundUnilateral"),
    dict(name="convergence reported from the all-equations error before it was computed", file=_F,
         old="        if (normRMSenf < m_convergenceTol) //TODO: add failure-to-improve check", new="        if (normRMSenf < m_convergenceTol || its == m_maxIters) //TODO: add failure-to-improve check",
         expect="REPORT:solve:converged=true-only-under-error<m_convergenceTol"),
]
