"""C46 -- Simulation is deterministic and isolated.

INVENTORY of every variable with static or thread storage duration defined in
the library sources and repository headers; each is classified by the analysis
(immutable by type / never written after initialisation / thread-local
accumulator re-initialised by its protocol) or must be in the reviewed table,
whose checkable side conditions are re-verified on every run."""
import os
import re

from ..facts import extract, extract_split, units_matching, compdb, Program, AnalysisBroken, sx_find, sx_str
from ..match import ev_write, is_call, call_args, call_obj, field_of, var_of

WRITE_ACC = ("w", "rw", "refarg", "addr", "handout", "mcall", "refbind", "other")
QUICK_UNITS = r"/SimTKmath/Integrators/src/|/Simbody/src/|/SimTKmath/Geometry/src/CollisionDetectionAlgorithm\.cpp$|/SimTKcommon/Random/src/|/SimTKcommon/src/Parallel"
QUICK_HDR = r"/Simbody/src/.*\.h$|/Simbody/include/|/SimTKmath/Integrators/src/.*\.h$|/SimTKmath/Geometry/src/.*\.h$|/SimTKmath/Geometry/include/|/SimTKcommon/src/.*\.h$"

# reviewed mutable static state: key -> (reason, side-condition name or None)
REVIEWED = {
    "SimTK::Random::RandomImpl::nextSeed": ("process-wide default-seed counter, consumed only when a Random object is constructed without a seed; "
                                             "no library code constructs a Random, so no simulation result depends on it", "only_random_ctor"),
    "SimTK::CollisionDetectionAlgorithm::algorithmMap": ("registry of collision algorithms keyed by geometry type ids, filled by the static registrar and the public "
                                                         "registerAlgorithm(); the registered algorithm objects are stateless, so sharing them between systems carries no state",
                                                         "stateless_algorithms"),
    "nextAvailableId@ContactGeometryImpl.h": ("atomic generator of ContactGeometry type ids: ids are identities/map keys only", "is_atomic"),
    "nextAvailableId@ContactImpl.h": ("atomic generators of Contact ids / type ids: identities only; ids never enter a computed result", "is_atomic"),
    "nextAvailableContactClique@ContactSurface.h": ("atomic generator of contact clique ids: identities only (cliques are compared for equality)", "is_atomic"),
    "err@AssemblyCondition.h": ("scratch vector of the default calcGoal(): passed to calcErrors() as an output argument and fully overwritten before it is read; "
                                "carries nothing between calls (not thread-safe, but C46 is about single-threaded interleaving)", "scratch_out_arg_first"),
    "v@SimbodyMatterSubsystemRep.h": ("placeholder results of the unimplemented particle API (getNumParticles() is 0); never resized or read by the library", "no_library_writer"),
    "SimTK::ParallelExecutorImpl::isWorker": ("thread-local flag set once at the start of each worker thread; read only by ParallelExecutor::isWorkerThread()", "only_set_true"),
    "rand@Testing.h": ("random generator of the test-support header SimTKcommon/Testing.h; the enclosing helper has no caller in the libraries", "no_library_caller"),
    "SimTK::TiXmlBase::condenseWhiteSpace": ("TinyXML parsing option, written only by TiXmlBase::SetCondenseWhiteSpace which the library never calls; XML I/O is not part of simulation", "setter_uncalled"),
    "SimTKIpopt::message_printed": ("IpOpt print-once banner flag; optimisation only, affects printing", None),
    "SimTKIpopt::RegisteredOption::next_counter_": ("IpOpt registration-order counter used to sort option listings; optimisation only", None),
    "SimTKIpopt::TaggedObject::unique_tag_": ("IpOpt change-detection tag generator: tags are compared for equality only", None),
    "cfsqp_fptr": ("entry point of the optional CFSQP plug-in, resolved once when the plug-in is loaded; optimisation only", None),
    "inPipe": ("Visualizer listener pipe descriptor; the visualizer is not part of simulation", None),
    "@cmaes.c": ("c-cmaes string buffers and print/write lock flags of its text-output helpers; CMA-ES optimiser only, they format messages and file output", None),
    "c_b6": ("f2c constant 1e-15 of gcvspl.cpp, passed by address as splc_'s `eps` argument which is only read", "param_not_written"),
    "@fnvector_serial.c": ("sundials Fortran-binding globals, written only by the FNV* Fortran entry points which nothing in the library calls", "fortran_glue_uncalled"),
}
NONMUTATING = {"find", "end", "begin", "size", "empty", "count", "at", "lower_bound", "upper_bound", "c_str", "data", "load"}
TLS_ACCUMULATORS = re.compile(r"CalcForcesParallelTask::m_\w+LocalStatic$")


def run(chk, tier, overlays=()):
    if tier == "thorough":
        units = sorted(compdb())
        facts = extract_split(units, hdr=r".*", overlays=overlays)
    else:
        units = units_matching(QUICK_UNITS)
        facts = extract_split(units, hdr=QUICK_HDR, overlays=overlays)
    P = Program(facts)
    chk.units += units
    chk.nfunctions += len(P.fns)
    dumped_files = set(f.file for f in P.all_fns())
    inventory(chk, P, tier, dumped_files, set(units))
    chk.assumptions += ["bit-identity of two actual runs is not decided; nondeterminism from threads (C17/C33), the OS or LAPACK is out of scope",
                        "quick tier covers the statics defined in the anchored directories; thorough covers all library units"]


def key_of(s):
    base = os.path.basename(s["file"])
    if s["local"]:
        return "%s@%s" % (s["name"], base)
    return s["name"]


def writers(P, s):
    """(function, event) pairs that may modify static s"""
    out = []
    fns = P.by_id.get(s.get("func"), []) if s["local"] else P.all_fns()
    for fn in fns:
        for b, i, e in fn.events(lambda e: e["k"] == "gvar" and e["var"] == s["name"]):
            if e["acc"] in WRITE_ACC:
                # an rcall/const use was classified 'rcall'; `other` is kept as a potential write
                if e["acc"] == "mcall" and e.get("via", "").split("::")[-1] in NONMUTATING:
                    continue   # non-const overload of a look-up (container.find() etc.): does not modify
                out.append((fn, e))
    return out


def inventory(chk, P, tier, dumped_files, units):
    chk.rule("INVENTORY", "every variable with static or thread storage duration defined under the repository is (I) immutable by type, (N) never written by any "
             "analysed function after its initialiser, (T) a thread-local force accumulator re-initialised by the task protocol (C17), or (R) listed in the reviewed "
             "table with a reason and, where stated, a side condition that is re-checked; anything else is unreviewed shared mutable state")
    counts = dict(I=0, N=0, T=0, R=0)
    seen_keys = set()
    for s in sorted(P.statics.values(), key=lambda s: (s["file"], s["line"], s["name"])):
        if "/tests/" in s["file"] or "/examples/" in s["file"]:
            continue
        site = "%s:%d" % (s["file"], s["line"])
        k = key_of(s)
        inst = "%s@%s:%d" % (s["name"], os.path.basename(s["file"]), s["line"]) if s["local"] else s["name"]
        # a function-local static is initialised ONCE, by whoever calls the function first: if its initialiser reads per-call data (this,
        # a parameter, another local of the function) the first caller's value is latched for the whole process, const or not
        if s["local"] and s.get("init") is not None and not s.get("constinit") and s.get("func"):
            fns = P.by_id.get(s["func"], [])
            names = set()
            for g in fns:
                names |= {p_[0] for p_ in g.d.get("params", []) if p_[0]}
                names |= {d["var"] for _, _, d in g.events(lambda q: q["k"] == "decl")}
            names.discard(s["name"].split("::")[-1])
            per_call = sorted({y[1] for y in sx_find(s["init"], lambda y: y[0] == "var" and y[1] in names)} | ({"this"} if sx_find(s["init"], lambda y: y == ["this"]) else set()))
            if fns:
                nlatch = chk.extra.setdefault("static_locals_with_dynamic_initialiser", 0) + 1
                chk.extra["static_locals_with_dynamic_initialiser"] = nlatch
                chk.judge(not per_call, "INVENTORY", inst + ":initialiser-reads-no-per-call-data", site,
                          "function-local static `%s` is initialised from %s: the value computed for the first caller (its object, its arguments) is kept for every later caller in the process" %
                          (s["name"].split("::")[-1], per_call))
                if per_call:
                    continue
        if s["const"] and not s["mutable_sub"]:
            counts["I"] += 1
            chk.ok("INVENTORY", inst + ":I", site, "immutable by type (%s)" % s["ty"][:60])
            continue
        # is the defining file within what this tier analyses?
        analysed = s["file"] in dumped_files or s["file"] in units
        ws = writers(P, s)
        rk = None
        if k in REVIEWED:
            rk = k
        else:
            base = "@" + os.path.basename(s["file"])
            if base in REVIEWED:
                rk = base
        if s["tls"] and TLS_ACCUMULATORS.search(s["name"]):
            counts["T"] += 1
            ok, why = tls_accumulator_ok(P, s)
            chk.judge(ok, "INVENTORY", inst + ":T", site, "thread-local accumulator: " + why)
            continue
        if rk is not None:
            counts["R"] += 1
            seen_keys.add(rk)
            reason, cond = REVIEWED[rk]
            ok, why = (True, "no checkable side condition") if cond is None else SIDE[cond](P, s, ws)
            chk.judge(ok, "INVENTORY", inst + ":R", site, "reviewed (%s); side condition %s: %s" % (reason[:80], cond, why))
            continue
        if not ws and analysed:
            counts["N"] += 1
            chk.ok("INVENTORY", inst + ":N", site, "never written after initialisation by any analysed function")
            continue
        if not analysed:
            chk.note("static %s (%s) is defined outside the units of this tier; classified in the thorough tier" % (s["name"], site))
            continue
        chk.violation("INVENTORY", inst + ":unreviewed", site,
                      "mutable static state `%s` of type %s is written by %s and is not in the reviewed table" %
                      (s["name"], s["ty"][:50], sorted(set(f.name for f, e in ws))[:4]))
    chk.extra["inventory_classes"] = counts
    chk.floor("INVENTORY", 250 if tier == "thorough" else 150)


def tls_accumulator_ok(P, s):
    ini = P.by_name.get("(anonymous namespace)::CalcForcesParallelTask::initialize", [])
    if not ini:
        return False, "CalcForcesParallelTask::initialize not found"
    f = ini[0]
    z = [e for _, _, e in f.calls() if e.get("fn", "").endswith("::setToZero") and call_obj(e) == ["gvar", s["name"]]]
    return bool(z), "zeroed in CalcForcesParallelTask::initialize()" if z else "not zeroed in initialize()"


# ------------------------------------------------------------ side conditions

def only_random_ctor(P, s, ws):
    users = set()
    for fn in P.all_fns():
        if any(True for _ in fn.events(lambda e: e["k"] == "gvar" and e["var"] == s["name"])):
            users.add(fn.name)
    ok = all(u.startswith("SimTK::Random::RandomImpl::") for u in users)
    # no library code constructs a Random
    ctors = set()
    for fn in P.all_fns():
        if fn.file.startswith("/repo/SimTKcommon/Random/") or fn.file.endswith("/Testing.h"):
            continue
        for b, i, e in fn.calls():
            if e.get("ctor") and e.get("fn", "").startswith("SimTK::Random::"):
                ctors.add(fn.name)
    return ok and not ctors, "used by %s; Random objects constructed in library code by %s" % (sorted(users), sorted(ctors))


def stateless_algorithms(P, s, ws):
    wf = sorted(set(f.name for f, e in ws))
    ok1 = set(wf) <= {"SimTK::CollisionDetectionAlgorithm::registerAlgorithm"}
    subs = P.subclasses("SimTK::CollisionDetectionAlgorithm")
    bad = [c for c in subs if any(not f.get("static") for f in P.classes[c]["fields"])]
    return ok1 and len(subs) >= 6 and not bad, "written only by %s; %d algorithm classes, with data members: %s" % (wf, len(subs), bad)


def is_atomic(P, s, ws):
    return "std::atomic" in s["ty"], "type is " + s["ty"]


def scratch_out_arg_first(P, s, ws):
    fn = P.by_id.get(s["func"], [None])[0]
    if fn is None:
        return False, "enclosing function not analysed"
    uses = [(b, i, e) for b, i, e in fn.events(lambda e: e["k"] == "gvar" and e["var"] == s["name"])]
    if not uses:
        return False, "no use"
    first = None
    for b, i, e in uses:
        if all(fn.dominates((b, i), (bb, ii)) for bb, ii, _ in uses):
            first = e
    return first is not None and first["acc"] == "refarg", "first use on every path is as an output reference argument (%s)" % (first or {}).get("via", "?")


def no_library_writer(P, s, ws):
    """write-only placeholder: everything that (transitively, depth 3) reaches the accessor belongs to the particle API family,
    and the matching getters read a different (const) object"""
    fn = P.by_id.get(s["func"], [None])[0]
    if fn is None:
        return False, "enclosing accessor not analysed"
    frontier = {fn.id}
    allc = set()
    for _ in range(3):
        nxt = set()
        for g in P.all_fns():
            if any(e.get("fid") in frontier for _, _, e in g.calls()):
                if g.id not in allc:
                    allc.add(g.id)
                    nxt.add(g.id)
        frontier = nxt
    names = sorted(set(x.split("(")[0] for x in allc))
    ok = all("Particle" in n for n in names)
    return ok, "reached only from the (unimplemented) particle API: %s" % names[:6]


def only_set_true(P, s, ws):
    vals = set()
    for f, e in ws:
        for _, _, a in f.events(lambda a: a["k"] == "assign" and a["lhs"] == ["gvar", s["name"]]):
            vals.add(sx_str(a["rhs"]))
    return vals <= {"true"} and len(set(f.name for f, e in ws)) <= 1, "assigned %s in %s" % (sorted(vals), sorted(set(f.name for f, e in ws)))


def no_library_caller(P, s, ws):
    fn = P.by_id.get(s.get("func"), [None])[0]
    if fn is None:
        return True, "enclosing helper not instantiated in the libraries"
    callers = [f.name for f in P.all_fns() for _, _, e in f.calls() if e.get("fid") == fn.id and not f.file.endswith("/Testing.h")]
    return not callers, "callers: %s" % callers[:3]


def setter_uncalled(P, s, ws):
    """written only by its setter; the setter is reachable only through public static API forwards that no library function calls"""
    wf = set(f.name for f, e in ws)
    level1 = set(f.name for f in P.all_fns() for _, _, e in f.calls() if e.get("fn") in wf and f.name not in wf)
    level2 = set(f.name for f in P.all_fns() for _, _, e in f.calls() if e.get("fn") in level1 and f.name not in level1)
    return not level2, "written by %s; forwarded by %s; those are called from %s" % (sorted(wf), sorted(level1), sorted(level2)[:3])


def param_not_written(P, s, ws):
    """every use is `&var` passed to a callee parameter through which the callee never writes"""
    bad = []
    for fn, e in ws:
        if e["acc"] != "addr":
            bad.append("%s:%s" % (fn.name, e["acc"]))
            continue
        # find the calls that receive &var and the parameter position
        for b, i, c in fn.calls():
            args = call_args(c)
            for pos, a in enumerate(args):
                if a == ["un", "&", ["gvar", s["name"]]]:
                    cal = P.fns_named(c.get("fn", ""))
                    if not cal:
                        bad.append("callee %s not analysed" % c.get("fn"))
                        continue
                    pname = cal[0].d["params"][pos][0]
                    wr = [w for _, _, w in cal[0].events(lambda w: bool(ev_write(w)) and var_of(ev_write(w)[0]) == pname and ev_write(w)[0] != ["var", pname])]
                    passed_on = [q for _, _, q in cal[0].calls() if any(x == ["var", pname] for x in call_args(q))]
                    if wr:
                        bad.append("%s writes *%s" % (cal[0].name, pname))
    return not bad, "uses: %d address-of arguments; problems: %s" % (len(ws), bad[:3])


def fortran_glue_uncalled(P, s, ws):
    wf = set(f.name for f, e in ws)
    callers = [f.name for f in P.all_fns() for _, _, e in f.calls() if e.get("fn") in wf and f.name not in wf]
    return not callers, "written by %s, called from %s" % (sorted(wf)[:4], callers[:3])


SIDE = dict(only_random_ctor=only_random_ctor, stateless_algorithms=stateless_algorithms, is_atomic=is_atomic,
            scratch_out_arg_first=scratch_out_arg_first, no_library_writer=no_library_writer, only_set_true=only_set_true,
            no_library_caller=no_library_caller, setter_uncalled=setter_uncalled, fortran_glue_uncalled=fortran_glue_uncalled,
            param_not_written=param_not_written)

_CD = "SimTKmath/Geometry/src/CollisionDetectionAlgorithm.cpp"
_AI = "SimTKmath/Integrators/src/AbstractIntegratorRep.cpp"
_GF = "Simbody/src/GeneralForceSubsystem.cpp"
MUTATIONS = [
    dict(name="seeded (sub-agent): projection limit made a function-local static const", arm=True, file="SimTKmath/Integrators/src/AbstractIntegratorRep.cpp",
         old="    const Real projectionLimit = ", new="    static const Real projectionLimit = ", expect="initialiser-reads-no-per-call-data"),
    dict(name="integrator keeps a static step counter", arm=True, file=_AI,
         old="bool AbstractIntegratorRep::takeOneStep(Real tMax, Real tReport)\n{\n    Real t1;",
         new="bool AbstractIntegratorRep::takeOneStep(Real tMax, Real tReport)\n{\n    static int stepsSoFar = 0; if (++stepsSoFar % 1000 == 0) currentStepSize *= Real(0.5);\n    Real t1;",
         expect="stepsSoFar"),
    dict(name="collision algorithm gains a cached member", file="SimTKmath/Geometry/include/simmath/internal/CollisionDetectionAlgorithm.h",
         old="class SimTK_SIMMATH_EXPORT CollisionDetectionAlgorithm::SphereSphere \n:   public CollisionDetectionAlgorithm {\npublic:",
         new="class SimTK_SIMMATH_EXPORT CollisionDetectionAlgorithm::SphereSphere \n:   public CollisionDetectionAlgorithm {\npublic:\n    mutable int lastHitCount = 0;",
         expect="algorithmMap:R"),
    dict(name="force subsystem caches the last force count in a namespace-scope variable", file=_GF,
         old="const int NumNonParallelThreads = 1;", new="const int NumNonParallelThreads = 1;\nint lastNumForcesSeen = 0;\nvoid noteForces(int n) { lastNumForcesSeen = n; }",
         expect="lastNumForcesSeen"),
    dict(name="thread-local accumulator no longer zeroed", file=_GF,
         old="        m_particleForcesLocalStatic.resize(m_particleForces->size());\n        m_particleForcesLocalStatic.setToZero();",
         new="        m_particleForcesLocalStatic.resize(m_particleForces->size());", expect="m_particleForcesLocalStatic:T"),
]
