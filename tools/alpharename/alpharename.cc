// alpharename: behaviour-preserving variant generator used to test the rule kernel for dependence on
// the names of local variables.  Renames every function-local variable and parameter (of function
// definitions) located in the target file to "rn_<name>", at its declaration and at every reference,
// and writes the rewritten file.  Variables touched by macros are left alone.
//   alpharename <compile-args-file> <source.cpp> <target-file> <out-file>
#include "clang/AST/ASTConsumer.h"
#include "clang/AST/RecursiveASTVisitor.h"
#include "clang/Frontend/CompilerInstance.h"
#include "clang/Frontend/FrontendAction.h"
#include "clang/Rewrite/Core/Rewriter.h"
#include "clang/Tooling/Tooling.h"
#include "llvm/Support/raw_ostream.h"
#include <fstream>
#include <map>
#include <set>
#include <sstream>

using namespace clang;

static std::string gTarget, gOut;

class V : public RecursiveASTVisitor<V> {
public:
  ASTContext &C;
  SourceManager &SM;
  std::map<const VarDecl *, std::vector<SourceLocation>> sites;
  std::set<const VarDecl *> bad;
  explicit V(ASTContext &C) : C(C), SM(C.getSourceManager()) {}
  bool shouldVisitTemplateInstantiations() const { return false; }
  bool inTarget(SourceLocation L) {
    if (L.isInvalid() || L.isMacroID()) return false;
    auto F = SM.getFilename(SM.getSpellingLoc(L));
    return F == gTarget;
  }
  bool eligible(const VarDecl *D) {
    if (!D || !D->getIdentifier() || D->getName().empty()) return false;
    if (isa<DecompositionDecl>(D) || isa<BindingDecl>(D)) return false;
    if (!D->isLocalVarDeclOrParm()) return false;
    if (D->isStaticLocal()) return false;
    if (auto *P = dyn_cast<ParmVarDecl>(D)) {
      auto *FD = dyn_cast_or_null<FunctionDecl>(P->getDeclContext());
      if (!FD || !FD->isThisDeclarationADefinition() || !FD->hasBody()) return false;
      if (FD->isDefaulted() || FD->isImplicit()) return false;
    }
    return true;
  }
  bool VisitVarDecl(VarDecl *D) {
    if (!eligible(D)) return true;
    SourceLocation L = D->getLocation();
    if (L.isMacroID() || !inTarget(L)) { bad.insert(D); return true; }
    sites[D].push_back(L);
    return true;
  }
  bool VisitDeclRefExpr(DeclRefExpr *E) {
    auto *D = dyn_cast<VarDecl>(E->getDecl());
    if (!D || !eligible(D)) return true;
    SourceLocation L = E->getLocation();
    if (L.isMacroID() || !inTarget(L)) { bad.insert(D); return true; }
    sites[D].push_back(L);
    return true;
  }
  // constructor initialisers `x(x)` refer to parameters through DeclRefExpr: handled above.
  bool VisitLambdaExpr(LambdaExpr *LE) {
    for (const auto &Cap : LE->captures())
      if (Cap.capturesVariable()) {
        auto *D = dyn_cast<VarDecl>(Cap.getCapturedVar());
        if (D && eligible(D)) {
          if (Cap.isImplicit()) continue;
          SourceLocation L = Cap.getLocation();
          if (L.isMacroID() || !inTarget(L)) bad.insert(D); else sites[D].push_back(L);
        }
      }
    return true;
  }
};

class Consumer : public ASTConsumer {
public:
  void HandleTranslationUnit(ASTContext &C) override {
    V v(C);
    v.TraverseDecl(C.getTranslationUnitDecl());
    Rewriter R(C.getSourceManager(), C.getLangOpts());
    unsigned n = 0;
    std::set<unsigned> done;
    for (auto &kv : v.sites) {
      if (v.bad.count(kv.first)) continue;
      // a parameter of a template pattern may be visited through several redeclarations: rename by location once
      for (SourceLocation L : kv.second) {
        unsigned off = C.getSourceManager().getFileOffset(L);
        if (!done.insert(off).second) continue;
        R.InsertTextBefore(L, "rn_");
      }
      ++n;
    }
    FileID FID;
    for (auto it = C.getSourceManager().fileinfo_begin(); it != C.getSourceManager().fileinfo_end(); ++it)
      if (it->first->getName() == gTarget) FID = C.getSourceManager().translateFile(it->first);
    std::error_code EC;
    llvm::raw_fd_ostream out(gOut, EC);
    if (FID.isValid() && R.getRewriteBufferFor(FID)) R.getRewriteBufferFor(FID)->write(out);
    else if (FID.isValid()) out << C.getSourceManager().getBufferData(FID);
    llvm::errs() << "alpharename: " << n << " variables renamed in " << gTarget << "\n";
  }
};

class Action : public ASTFrontendAction {
public:
  std::unique_ptr<ASTConsumer> CreateASTConsumer(CompilerInstance &, StringRef) override { return std::make_unique<Consumer>(); }
};

int main(int argc, char **argv) {
  if (argc < 5) { llvm::errs() << "usage: alpharename <args-file> <source> <target> <out>\n"; return 2; }
  std::ifstream af(argv[1]);
  std::vector<std::string> args;
  std::string a;
  while (std::getline(af, a)) if (!a.empty()) args.push_back(a);
  std::string src = argv[2];
  gTarget = argv[3];
  gOut = argv[4];
  std::ifstream sf(src);
  std::stringstream ss; ss << sf.rdbuf();
  args.push_back("-fsyntax-only");
  args.push_back("-Wno-everything");
  bool ok = tooling::runToolOnCodeWithArgs(std::make_unique<Action>(), ss.str(), args, src, "clang-tool");
  return ok ? 0 : 1;
}
