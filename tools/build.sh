#!/bin/sh
# Builds the libTooling fact extractor with the installed clang/LLVM 14 (offline).
set -e
cd "$(dirname "$0")"
mkdir -p bin
if [ ! -x bin/factdump ] || [ factdump/factdump.cc -nt bin/factdump ]; then
  clang++ $(llvm-config-14 --cxxflags) -std=c++17 -O1 -fno-rtti factdump/factdump.cc -o bin/factdump \
      /usr/lib/llvm-14/lib/libclang-cpp.so.14 /usr/lib/llvm-14/lib/libLLVM-14.so
fi
echo "factdump built"
