// factdump -- libTooling fact extractor for the /verif static checks.
//
// For one translation unit it writes one JSON document describing every
// function body, class, enum and static-storage variable whose spelling
// location is under the repository root: per function a clang::CFG (all
// sub-expressions added, implicit destructors on, EH edges off) with the
// ordered *events* of every block (calls with resolved callees, member and
// global accesses with access kind, assignments, declarations, returns,
// throws, implicit destructor calls) and bounded-depth s-expression
// summaries of the expressions involved.  Rules (Python) work on these
// facts only -- never on source text or positions.
//
// usage: factdump [--root /repo] [--hdr REGEX] [--inst REGEX] [--overlay real=variant]...
//                 -o out.json file.cpp -- <compiler args>

#include "clang/AST/ASTConsumer.h"
#include "clang/AST/ASTContext.h"
#include "clang/AST/ParentMapContext.h"
#include "clang/AST/RecursiveASTVisitor.h"
#include "clang/AST/ExprCXX.h"
#include "clang/AST/DeclTemplate.h"
#include "clang/Analysis/CFG.h"
#include "clang/Frontend/CompilerInstance.h"
#include "clang/Frontend/FrontendAction.h"
#include "clang/Tooling/CompilationDatabase.h"
#include "clang/Tooling/Tooling.h"
#include "clang/Basic/SourceManager.h"
#include "llvm/Support/JSON.h"
#include "llvm/Support/Regex.h"
#include "llvm/Support/raw_ostream.h"
#include "llvm/Support/MemoryBuffer.h"
#include <fstream>
#include <map>
#include <set>
#include <sstream>
#include <string>
#include <vector>

using namespace clang;
namespace json = llvm::json;

static std::string gRoot = "/repo/";
static std::string gOut;
static std::string gHdrRe = ".*";
static std::string gInstRe = "";
static std::string gFnRe = "";
static int gDepth = 9;
static bool gNoMain = false;

namespace {

struct Ctx {
  ASTContext *AC = nullptr;
  SourceManager *SM = nullptr;
  PrintingPolicy PP{LangOptions()};
  llvm::Regex HdrRe{".*"}, InstRe{"^$"}, FnRe{".*"};
  std::string mainFile;
  json::Array functions, classes, statics, enums;
  std::set<std::string> deps;
  std::set<const void *> doneFns;
  std::set<std::string> doneKeys;
};

static std::string tyStr(Ctx &C, QualType T) {
  if (T.isNull()) return "";
  return T.getAsString(C.PP);
}

static std::string fileOf(Ctx &C, SourceLocation L) {
  if (L.isInvalid()) return "";
  L = C.SM->getExpansionLoc(L);
  PresumedLoc P = C.SM->getPresumedLoc(L);
  if (P.isInvalid()) return "";
  std::string f = P.getFilename();
  // normalise a/b/../c and ./ a little
  llvm::SmallString<256> s(f);
  llvm::sys::path::remove_dots(s, true);
  return std::string(s.str());
}
static unsigned lineOf(Ctx &C, SourceLocation L) {
  if (L.isInvalid()) return 0;
  return C.SM->getExpansionLineNumber(L);
}
static unsigned colOf(Ctx &C, SourceLocation L) {
  if (L.isInvalid()) return 0;
  return C.SM->getExpansionColumnNumber(L);
}
static bool inRoot(const std::string &f) {
  return f.compare(0, gRoot.size(), gRoot) == 0 &&
         f.find("/_build/") == std::string::npos;
}

static std::string qualName(const NamedDecl *D) {
  if (!D) return "";
  std::string s;
  llvm::raw_string_ostream os(s);
  D->printQualifiedName(os);
  os.flush();
  return s;
}

static std::string fnSig(Ctx &C, const FunctionDecl *FD) {
  std::string s = "(";
  bool first = true;
  for (const ParmVarDecl *P : FD->parameters()) {
    if (!first) s += ",";
    first = false;
    s += tyStr(C, P->getType());
  }
  s += ")";
  if (auto *MD = dyn_cast<CXXMethodDecl>(FD))
    if (MD->isConst()) s += "const";
  return s;
}

static std::string lambdaName(Ctx &C, const CXXRecordDecl *RD) {
  std::string s = "lambda@";
  s += fileOf(C, RD->getLocation());
  s += ":" + std::to_string(lineOf(C, RD->getLocation())) + ":" +
       std::to_string(colOf(C, RD->getLocation()));
  return s;
}

static std::string fnName(Ctx &C, const FunctionDecl *FD) {
  if (auto *MD = dyn_cast<CXXMethodDecl>(FD)) {
    const CXXRecordDecl *RD = MD->getParent();
    if (RD && RD->isLambda()) return lambdaName(C, RD);
  }
  return qualName(FD);
}
static std::string fnId(Ctx &C, const FunctionDecl *FD) {
  return fnName(C, FD) + fnSig(C, FD);
}

// ---------------------------------------------------------------- s-exprs

static json::Value sx(Ctx &C, const Stmt *S, int d);

static json::Value sxArgs(Ctx &C, llvm::ArrayRef<const Expr *> args, int d) {
  json::Array a;
  for (const Expr *e : args) a.push_back(sx(C, e, d));
  return std::move(a);
}

static const Expr *strip(const Expr *E) {
  while (E) {
    if (auto *P = dyn_cast<ParenExpr>(E)) { E = P->getSubExpr(); continue; }
    if (auto *I = dyn_cast<ImplicitCastExpr>(E)) { E = I->getSubExpr(); continue; }
    if (auto *M = dyn_cast<MaterializeTemporaryExpr>(E)) { E = M->getSubExpr(); continue; }
    if (auto *B = dyn_cast<CXXBindTemporaryExpr>(E)) { E = B->getSubExpr(); continue; }
    if (auto *W = dyn_cast<ExprWithCleanups>(E)) { E = W->getSubExpr(); continue; }
    if (auto *F = dyn_cast<FullExpr>(E)) { E = F->getSubExpr(); continue; }
    if (auto *D = dyn_cast<CXXDefaultArgExpr>(E)) { E = D->getExpr(); continue; }
    if (auto *D = dyn_cast<CXXDefaultInitExpr>(E)) { E = D->getExpr(); continue; }
    if (auto *SNT = dyn_cast<SubstNonTypeTemplateParmExpr>(E)) { E = SNT->getReplacement(); continue; }
    break;
  }
  return E;
}

static json::Value arr(std::initializer_list<json::Value> l) {
  return json::Array(l);
}

static json::Value sx(Ctx &C, const Stmt *S, int d) {
  if (!S) return nullptr;
  const Expr *E = dyn_cast<Expr>(S);
  if (!E) return arr({"stmt", S->getStmtClassName()});
  E = strip(E);
  if (!E) return nullptr;
  if (d <= 0) return arr({"..."});
  if (auto *DR = dyn_cast<DeclRefExpr>(E)) {
    const ValueDecl *VD = DR->getDecl();
    if (auto *EC = dyn_cast<EnumConstantDecl>(VD)) return arr({"enum", qualName(EC)});
    if (auto *V = dyn_cast<VarDecl>(VD)) {
      if (V->isLocalVarDeclOrParm() && !V->isStaticLocal())
        return arr({"var", V->getNameAsString()});
      return arr({"gvar", qualName(V)});
    }
    if (auto *F = dyn_cast<FunctionDecl>(VD)) return arr({"fn", qualName(F)});
    if (isa<FieldDecl>(VD)) return arr({"mem", arr({"this"}), qualName(VD)});
    return arr({"ref", qualName(VD)});
  }
  if (isa<CXXThisExpr>(E)) return arr({"this"});
  if (auto *M = dyn_cast<MemberExpr>(E)) {
    const ValueDecl *VD = M->getMemberDecl();
    if (isa<CXXMethodDecl>(VD)) return arr({"method", sx(C, M->getBase(), d - 1), qualName(VD)});
    return arr({"mem", sx(C, M->getBase(), d - 1), qualName(VD)});
  }
  if (auto *M = dyn_cast<CXXDependentScopeMemberExpr>(E)) {
    json::Value b = M->isImplicitAccess() ? arr({"this"}) : sx(C, M->getBase(), d - 1);
    return arr({"dmem", std::move(b), M->getMember().getAsString()});
  }
  if (auto *U = dyn_cast<UnresolvedMemberExpr>(E)) {
    json::Value b = U->isImplicitAccess() ? arr({"this"}) : sx(C, U->getBase(), d - 1);
    return arr({"dmem", std::move(b), U->getMemberName().getAsString()});
  }
  if (auto *U = dyn_cast<UnresolvedLookupExpr>(E)) return arr({"dfn", U->getName().getAsString()});
  if (auto *U = dyn_cast<DependentScopeDeclRefExpr>(E)) return arr({"dref", U->getDeclName().getAsString()});
  if (auto *OC = dyn_cast<CXXOperatorCallExpr>(E)) {
    std::string op = getOperatorSpelling(OC->getOperator());
    json::Array a;
    a.push_back("opc");
    a.push_back(op);
    for (const Expr *arg : OC->arguments()) a.push_back(sx(C, arg, d - 1));
    return std::move(a);
  }
  if (auto *MC = dyn_cast<CXXMemberCallExpr>(E)) {
    const CXXMethodDecl *MD = MC->getMethodDecl();
    std::vector<const Expr *> args(MC->arg_begin(), MC->arg_end());
    std::string name = MD ? qualName(MD) : "?";
    if (MD && isa<CXXConversionDecl>(MD)) return arr({"conv", sx(C, MC->getImplicitObjectArgument(), d - 1), name});
    return arr({"call", name, sx(C, MC->getImplicitObjectArgument(), d - 1), sxArgs(C, args, d - 1)});
  }
  if (auto *CE = dyn_cast<CallExpr>(E)) {
    std::vector<const Expr *> args(CE->arg_begin(), CE->arg_end());
    if (const FunctionDecl *FD = CE->getDirectCallee())
      return arr({"call", qualName(FD), nullptr, sxArgs(C, args, d - 1)});
    const Expr *cal = strip(CE->getCallee());
    if (auto *M = dyn_cast_or_null<CXXDependentScopeMemberExpr>(cal)) {
      json::Value b = M->isImplicitAccess() ? arr({"this"}) : sx(C, M->getBase(), d - 1);
      return arr({"dcall", M->getMember().getAsString(), std::move(b), sxArgs(C, args, d - 1)});
    }
    if (auto *U = dyn_cast_or_null<UnresolvedMemberExpr>(cal)) {
      json::Value b = U->isImplicitAccess() ? arr({"this"}) : sx(C, U->getBase(), d - 1);
      return arr({"dcall", U->getMemberName().getAsString(), std::move(b), sxArgs(C, args, d - 1)});
    }
    if (auto *U = dyn_cast_or_null<UnresolvedLookupExpr>(cal))
      return arr({"dcall", U->getName().getAsString(), nullptr, sxArgs(C, args, d - 1)});
    if (auto *M = dyn_cast_or_null<MemberExpr>(cal))
      return arr({"call", qualName(M->getMemberDecl()), sx(C, M->getBase(), d - 1), sxArgs(C, args, d - 1)});
    return arr({"icall", sx(C, cal, d - 1), nullptr, sxArgs(C, args, d - 1)});
  }
  if (auto *CC = dyn_cast<CXXConstructExpr>(E)) {
    std::vector<const Expr *> args(CC->arg_begin(), CC->arg_end());
    const CXXConstructorDecl *CD = CC->getConstructor();
    // a copy/move/converting construction from one argument is transparent
    if (CD && CD->isCopyOrMoveConstructor() && args.size() == 1) return sx(C, args[0], d);
    return arr({"ctor", tyStr(C, CC->getType().getUnqualifiedType()), sxArgs(C, args, d - 1)});
  }
  if (auto *UC = dyn_cast<CXXUnresolvedConstructExpr>(E)) {
    std::vector<const Expr *> args(UC->arg_begin(), UC->arg_end());
    return arr({"ctor", tyStr(C, UC->getTypeAsWritten()), sxArgs(C, args, d - 1)});
  }
  if (auto *TO = dyn_cast<CXXTemporaryObjectExpr>(E)) {
    std::vector<const Expr *> args(TO->arg_begin(), TO->arg_end());
    return arr({"ctor", tyStr(C, TO->getType()), sxArgs(C, args, d - 1)});
  }
  if (auto *BO = dyn_cast<BinaryOperator>(E))
    return arr({"op", BO->getOpcodeStr().str(), sx(C, BO->getLHS(), d - 1), sx(C, BO->getRHS(), d - 1)});
  if (auto *RB = dyn_cast<CXXRewrittenBinaryOperator>(E)) {
    // C++20: `a != b` rewritten to `!(a == b)` (or reversed operands): report the operator as written
    auto DF = RB->getDecomposedForm();
    return arr({"opc", BinaryOperator::getOpcodeStr(DF.Opcode).str(), sx(C, DF.LHS, d - 1), sx(C, DF.RHS, d - 1)});
  }
  if (auto *UO = dyn_cast<UnaryOperator>(E)) {
    std::string op = UnaryOperator::getOpcodeStr(UO->getOpcode()).str();
    if (UO->isPostfix()) op = "post" + op;
    return arr({"un", op, sx(C, UO->getSubExpr(), d - 1)});
  }
  if (auto *CO = dyn_cast<ConditionalOperator>(E))
    return arr({"cond", sx(C, CO->getCond(), d - 1), sx(C, CO->getTrueExpr(), d - 1), sx(C, CO->getFalseExpr(), d - 1)});
  if (auto *AS = dyn_cast<ArraySubscriptExpr>(E))
    return arr({"idx", sx(C, AS->getBase(), d - 1), sx(C, AS->getIdx(), d - 1)});
  if (auto *IL = dyn_cast<IntegerLiteral>(E)) {
    llvm::SmallString<32> s;
    IL->getValue().toString(s, 10, true);
    return arr({"lit", std::string(s.str())});
  }
  if (auto *FL = dyn_cast<FloatingLiteral>(E)) {
    llvm::SmallString<32> s;
    FL->getValue().toString(s);
    return arr({"lit", std::string(s.str())});
  }
  if (auto *BL = dyn_cast<CXXBoolLiteralExpr>(E)) return arr({"lit", BL->getValue() ? "true" : "false"});
  if (auto *SL = dyn_cast<StringLiteral>(E)) {
    if (SL->getCharByteWidth() == 1) return arr({"str", SL->getString().str()});
    return arr({"str", "<wide>"});
  }
  if (auto *CL = dyn_cast<CharacterLiteral>(E)) return arr({"lit", std::to_string(CL->getValue())});
  if (isa<CXXNullPtrLiteralExpr>(E) || isa<GNUNullExpr>(E)) return arr({"lit", "null"});
  if (auto *EC = dyn_cast<ExplicitCastExpr>(E))
    return arr({"cast", tyStr(C, EC->getTypeAsWritten()), sx(C, EC->getSubExpr(), d - 1)});
  if (auto *NE = dyn_cast<CXXNewExpr>(E)) {
    json::Value init = NE->getInitializer() ? sx(C, NE->getInitializer(), d - 1) : json::Value(nullptr);
    return arr({"new", tyStr(C, NE->getAllocatedType()), std::move(init)});
  }
  if (auto *DE = dyn_cast<CXXDeleteExpr>(E)) return arr({"delete", sx(C, DE->getArgument(), d - 1)});
  if (auto *LE = dyn_cast<LambdaExpr>(E)) return arr({"lambda", lambdaName(C, LE->getLambdaClass())});
  if (auto *IL = dyn_cast<InitListExpr>(E)) {
    std::vector<const Expr *> args;
    for (unsigned k = 0; k < IL->getNumInits(); ++k) args.push_back(IL->getInit(k));
    return arr({"initlist", sxArgs(C, args, d - 1)});
  }
  if (auto *PL = dyn_cast<ParenListExpr>(E)) {
    std::vector<const Expr *> args;
    for (unsigned k = 0; k < PL->getNumExprs(); ++k) args.push_back(PL->getExpr(k));
    return arr({"initlist", sxArgs(C, args, d - 1)});
  }
  if (auto *TE = dyn_cast<CXXThrowExpr>(E)) return arr({"throw", sx(C, TE->getSubExpr(), d - 1)});
  if (auto *SV = dyn_cast<CXXScalarValueInitExpr>(E)) return arr({"zero", tyStr(C, SV->getType())});
  if (auto *UE = dyn_cast<UnaryExprOrTypeTraitExpr>(E)) return arr({"sizeof"});
  if (auto *CL = dyn_cast<CompoundLiteralExpr>(E)) return sx(C, CL->getInitializer(), d - 1);
  if (auto *SE = dyn_cast<StmtExpr>(E)) return arr({"stmtexpr"});
  if (auto *OV = dyn_cast<OpaqueValueExpr>(E)) return sx(C, OV->getSourceExpr(), d - 1);
  return arr({"?", E->getStmtClassName()});
}

// --------------------------------------------------------- access kinds

// How is the l-value E used by its context?  r, w, rw, addr, mcall (object of a
// non-const member call), refarg (bound to a non-const reference/pointer
// parameter), refbind (initialises a non-const reference variable), handout
// (returned by non-const reference / pointer), field (base of a further member
// access: classification continues at the parent), other.
struct Access {
  std::string kind;
  std::string via; // method or callee name where relevant
};

static const Stmt *parentStmt(Ctx &C, const Stmt *S, const Decl **declParent = nullptr) {
  auto Ps = C.AC->getParents(*S);
  for (const auto &P : Ps) {
    if (const Stmt *PS = P.get<Stmt>()) return PS;
    if (declParent)
      if (const Decl *D = P.get<Decl>()) *declParent = D;
  }
  return nullptr;
}

static bool isNonConstRefOrPtr(QualType T) {
  if (T.isNull()) return false;
  if (T->isReferenceType()) return !T->getPointeeType().isConstQualified() && T->isLValueReferenceType();
  return false;
}
// an array l-value decayed to a pointer-to-non-const parameter: the callee may write the array
static bool isArrayToMutablePtr(const Expr *Arg, QualType ParamT) {
  if (ParamT.isNull() || !ParamT->isPointerType() || ParamT->getPointeeType().isConstQualified()) return false;
  const Expr *S = strip(Arg);
  return S && S->getType()->isArrayType();
}

static Access classify(Ctx &C, const Expr *E, const FunctionDecl *Cur, int fuel = 12) {
  Access A;
  if (fuel <= 0) { A.kind = "other"; return A; }
  const Decl *DP = nullptr;
  const Stmt *P = parentStmt(C, E, &DP);
  if (!P) {
    if (auto *VD = dyn_cast_or_null<VarDecl>(DP)) {
      if (isNonConstRefOrPtr(VD->getType())) { A.kind = "refbind"; A.via = VD->getNameAsString(); return A; }
      A.kind = "r";
      return A;
    }
    A.kind = "other";
    return A;
  }
  if (isa<ParenExpr>(P) || isa<ExprWithCleanups>(P) || isa<MaterializeTemporaryExpr>(P) ||
      isa<CXXBindTemporaryExpr>(P) || isa<ConstantExpr>(P))
    return classify(C, cast<Expr>(P), Cur, fuel - 1);
  if (auto *IC = dyn_cast<ImplicitCastExpr>(P)) {
    if (IC->getCastKind() == CK_LValueToRValue) { A.kind = "r"; return A; }
    if (IC->getCastKind() == CK_ArrayToPointerDecay || IC->getCastKind() == CK_NoOp ||
        IC->getCastKind() == CK_DerivedToBase || IC->getCastKind() == CK_UncheckedDerivedToBase ||
        IC->getCastKind() == CK_ConstructorConversion || IC->getCastKind() == CK_UserDefinedConversion)
      return classify(C, IC, Cur, fuel - 1);
    A.kind = "r";
    return A;
  }
  if (auto *EC = dyn_cast<ExplicitCastExpr>(P)) return classify(C, EC, Cur, fuel - 1);
  if (auto *BO = dyn_cast<BinaryOperator>(P)) {
    if (BO->isAssignmentOp() && strip(BO->getLHS()) == strip(E)) {
      A.kind = BO->isCompoundAssignmentOp() ? "rw" : "w";
      return A;
    }
    if (BO->getOpcode() == BO_Comma && BO->getRHS() == E) return classify(C, BO, Cur, fuel - 1);
    A.kind = "r";
    return A;
  }
  if (auto *UO = dyn_cast<UnaryOperator>(P)) {
    if (UO->isIncrementDecrementOp()) { A.kind = "rw"; return A; }
    if (UO->getOpcode() == UO_AddrOf) { A.kind = "addr"; return A; }
    if (UO->getOpcode() == UO_Deref) return classify(C, UO, Cur, fuel - 1);
    A.kind = "r";
    return A;
  }
  if (auto *ME = dyn_cast<MemberExpr>(P)) {
    if (isa<CXXMethodDecl>(ME->getMemberDecl())) {
      // object of a member call: find the call
      const Stmt *PP = parentStmt(C, ME);
      const CXXMethodDecl *MD = cast<CXXMethodDecl>(ME->getMemberDecl());
      (void)PP;
      A.via = qualName(MD);
      A.kind = (MD->isConst() || MD->isStatic()) ? "rcall" : "mcall";
      return A;
    }
    if (ME->isArrow()) { A.kind = "r"; return A; } // pointer value is read
    Access In = classify(C, ME, Cur, fuel - 1);
    return In;
  }
  if (auto *AS = dyn_cast<ArraySubscriptExpr>(P)) {
    if (strip(AS->getBase()) == strip(E)) return classify(C, AS, Cur, fuel - 1);
    A.kind = "r";
    return A;
  }
  if (auto *OC = dyn_cast<CXXOperatorCallExpr>(P)) {
    const FunctionDecl *FD = OC->getDirectCallee();
    unsigned idx = 0;
    for (unsigned i = 0; i < OC->getNumArgs(); ++i)
      if (strip(OC->getArg(i)) == strip(E)) idx = i;
    if (FD) {
      A.via = qualName(FD);
      if (auto *MD = dyn_cast<CXXMethodDecl>(FD)) {
        if (idx == 0) {
          if (MD->isConst()) { A.kind = "rcall"; return A; }
          if (OC->isAssignmentOp()) { A.kind = (OC->getOperator() == OO_Equal) ? "w" : "rw"; return A; }
          if (OC->getOperator() == OO_PlusPlus || OC->getOperator() == OO_MinusMinus) { A.kind = "rw"; return A; }
          if (OC->getOperator() == OO_Subscript || OC->getOperator() == OO_Star || OC->getOperator() == OO_Arrow ||
              OC->getOperator() == OO_Call) {
            // non-const element access: the use of the element decides
            Access In = classify(C, OC, Cur, fuel - 1);
            if (In.kind == "r" || In.kind == "rcall") { In.kind = "r"; return In; }
            if (In.kind == "other") In.kind = "mcall";
            if (In.via.empty()) In.via = A.via;
            return In;
          }
          A.kind = "mcall";
          return A;
        }
        unsigned pi = idx - 1;
        if (pi < FD->getNumParams() && isNonConstRefOrPtr(FD->getParamDecl(pi)->getType())) { A.kind = "refarg"; return A; }
        A.kind = "r";
        return A;
      }
      if (idx < FD->getNumParams() && isNonConstRefOrPtr(FD->getParamDecl(idx)->getType())) {
        A.kind = (OC->isAssignmentOp() && idx == 0) ? "rw" : "refarg";
        return A;
      }
      A.kind = "r";
      return A;
    }
    A.kind = "other";
    return A;
  }
  if (auto *CE = dyn_cast<CallExpr>(P)) {
    if (strip(CE->getCallee()) == strip(E)) { A.kind = "r"; return A; }
    const FunctionDecl *FD = CE->getDirectCallee();
    if (auto *MC = dyn_cast<CXXMemberCallExpr>(CE)) FD = MC->getMethodDecl();
    if (FD) {
      A.via = qualName(FD);
      for (unsigned i = 0; i < CE->getNumArgs(); ++i)
        if (strip(CE->getArg(i)) == strip(E)) {
          if (i < FD->getNumParams() && isNonConstRefOrPtr(FD->getParamDecl(i)->getType())) { A.kind = "refarg"; return A; }
          if (i < FD->getNumParams() && isArrayToMutablePtr(CE->getArg(i), FD->getParamDecl(i)->getType())) { A.kind = "refarg"; return A; }
          A.kind = "r";
          return A;
        }
    }
    A.kind = "other";
    return A;
  }
  if (auto *CC = dyn_cast<CXXConstructExpr>(P)) {
    const CXXConstructorDecl *CD = CC->getConstructor();
    A.via = qualName(CD);
    for (unsigned i = 0; i < CC->getNumArgs(); ++i)
      if (strip(CC->getArg(i)) == strip(E)) {
        if (i < CD->getNumParams() && isNonConstRefOrPtr(CD->getParamDecl(i)->getType())) { A.kind = "refarg"; return A; }
        A.kind = "r";
        return A;
      }
    A.kind = "r";
    return A;
  }
  if (isa<ReturnStmt>(P)) {
    if (Cur && isNonConstRefOrPtr(Cur->getReturnType())) { A.kind = "handout"; return A; }
    A.kind = "r";
    return A;
  }
  if (isa<DeclStmt>(P)) { A.kind = "r"; return A; }
  if (auto *CO = dyn_cast<ConditionalOperator>(P)) {
    if (CO->getCond() == E) { A.kind = "r"; return A; }
    return classify(C, CO, Cur, fuel - 1);
  }
  if (isa<CXXDeleteExpr>(P)) { A.kind = "r"; return A; }
  if (isa<IfStmt>(P) || isa<WhileStmt>(P) || isa<ForStmt>(P) || isa<DoStmt>(P) || isa<SwitchStmt>(P)) { A.kind = "r"; return A; }
  if (isa<CompoundStmt>(P)) { A.kind = "none"; return A; }
  if (isa<InitListExpr>(P)) { A.kind = "r"; return A; }
  A.kind = "other";
  A.via = P->getStmtClassName();
  return A;
}

// ---------------------------------------------------------- events

static const FunctionDecl *calleeOf(const CallExpr *CE) {
  if (auto *MC = dyn_cast<CXXMemberCallExpr>(CE)) return MC->getMethodDecl();
  return CE->getDirectCallee();
}

// "all" if S is lexically inside the try-block of a try statement with a
// catch-all handler, "some" if inside a try-block without one.
static std::string tryContext(Ctx &C, const Stmt *S) {
  const Stmt *Cur = S;
  std::string res;
  for (int fuel = 0; fuel < 64 && Cur; ++fuel) {
    const Stmt *P = parentStmt(C, Cur);
    if (!P) break;
    if (auto *TS = dyn_cast<CXXTryStmt>(P)) {
      if (TS->getTryBlock() == Cur) {
        bool all = false;
        for (unsigned h = 0; h < TS->getNumHandlers(); ++h)
          if (!TS->getHandler(h)->getExceptionDecl()) all = true;
        if (all) return "all";
        res = "some";
      }
    }
    Cur = P;
  }
  return res;
}

static void addLoc(Ctx &C, json::Object &o, const Stmt *S) {
  o["line"] = (int64_t)lineOf(C, S->getBeginLoc());
  std::string f = fileOf(C, S->getBeginLoc());
  o["col"] = (int64_t)colOf(C, S->getBeginLoc());
  (void)f;
}

static void emitEvents(Ctx &C, const Stmt *S, const FunctionDecl *Cur, json::Array &ev) {
  if (!S) return;
  if (auto *E = dyn_cast<Expr>(S)) {
    if (auto *CE = dyn_cast<CallExpr>(E)) {
      json::Object o;
      o["k"] = "call";
      const FunctionDecl *FD = calleeOf(CE);
      json::Value s = sx(C, CE, gDepth);
      if (FD) {
        o["fn"] = fnName(C, FD);
        o["fid"] = fnId(C, FD);
        if (auto *MD = dyn_cast<CXXMethodDecl>(FD)) {
          if (MD->isVirtual()) {
            // explicit qualification (Base::f()) suppresses virtual dispatch
            bool qual = false;
            if (auto *ME = dyn_cast_or_null<MemberExpr>(strip(CE->getCallee()))) qual = ME->hasQualifier();
            o["virt"] = !qual;
          }
          if (MD->isConst()) o["cconst"] = true;
        }
        if (FD->isNoReturn()) o["noreturn"] = true;
      } else {
        // dependent / indirect
        if (auto *a = s.getAsArray())
          if (a->size() > 1)
            if (auto n = (*a)[1].getAsString()) o["fn"] = n->str();
        o["dep"] = true;
      }
      if (auto *OC = dyn_cast<CXXOperatorCallExpr>(CE)) {
        o["op"] = getOperatorSpelling(OC->getOperator());
        json::Array tys;
        for (const Expr *a : OC->arguments()) tys.push_back(tyStr(C, a->getType().getUnqualifiedType()));
        o["argtys"] = std::move(tys);
      }
      if (auto *MC = dyn_cast<CXXMemberCallExpr>(CE)) {
        o["obj"] = sx(C, MC->getImplicitObjectArgument(), gDepth);
        if (const Expr *ob = MC->getImplicitObjectArgument()) {
          QualType OT = ob->getType();
          if (OT->isPointerType()) OT = OT->getPointeeType();
          o["objty"] = tyStr(C, OT.getUnqualifiedType());
        }
      }
      o["x"] = std::move(s);
      {
        std::string tc = tryContext(C, CE);
        if (!tc.empty()) o["try"] = tc;
      }
      addLoc(C, o, CE);
      ev.push_back(std::move(o));
      return;
    }
    if (auto *CC = dyn_cast<CXXConstructExpr>(E)) {
      json::Object o;
      o["k"] = "call";
      o["ctor"] = true;
      const CXXConstructorDecl *CD = CC->getConstructor();
      o["fn"] = fnName(C, CD);
      o["fid"] = fnId(C, CD);
      o["ty"] = tyStr(C, CC->getType().getUnqualifiedType());
      std::vector<const Expr *> args(CC->arg_begin(), CC->arg_end());
      o["x"] = arr({"ctor", tyStr(C, CC->getType().getUnqualifiedType()), sxArgs(C, args, gDepth - 1)});
      addLoc(C, o, CC);
      ev.push_back(std::move(o));
      return;
    }
    if (auto *ME = dyn_cast<MemberExpr>(E)) {
      const ValueDecl *VD = ME->getMemberDecl();
      if (isa<FieldDecl>(VD) || isa<VarDecl>(VD)) {
        Access A = classify(C, ME, Cur);
        json::Object o;
        o["k"] = "mem";
        o["field"] = qualName(VD);
        o["base"] = sx(C, ME->getBase(), gDepth);
        o["acc"] = A.kind;
        if (!A.via.empty()) o["via"] = A.via;
        o["ty"] = tyStr(C, VD->getType());
        addLoc(C, o, ME);
        ev.push_back(std::move(o));
      }
      return;
    }
    if (auto *DM = dyn_cast<CXXDependentScopeMemberExpr>(E)) {
      json::Object o;
      o["k"] = "dmem";
      o["field"] = DM->getMember().getAsString();
      o["base"] = DM->isImplicitAccess() ? arr({"this"}) : sx(C, DM->getBase(), gDepth);
      Access A = classify(C, DM, Cur);
      o["acc"] = A.kind;
      addLoc(C, o, DM);
      ev.push_back(std::move(o));
      return;
    }
    if (auto *DR = dyn_cast<DeclRefExpr>(E)) {
      if (auto *V = dyn_cast<VarDecl>(DR->getDecl())) {
        bool global = !(V->isLocalVarDeclOrParm() && !V->isStaticLocal());
        Access A = classify(C, DR, Cur);
        if (global || (A.kind != "r" && A.kind != "rcall" && A.kind != "none")) {
          json::Object o;
          o["k"] = global ? "gvar" : "lvar";
          o["var"] = global ? qualName(V) : V->getNameAsString();
          o["acc"] = A.kind;
          if (!A.via.empty()) o["via"] = A.via;
          if (global && V->getTLSKind() != VarDecl::TLS_None) o["tls"] = true;
          if (!global && V->getType()->isReferenceType()) o["isref"] = true;
          addLoc(C, o, DR);
          ev.push_back(std::move(o));
        }
      }
      return;
    }
    if (auto *BO = dyn_cast<BinaryOperator>(E)) {
      if (BO->isAssignmentOp()) {
        json::Object o;
        o["k"] = "assign";
        o["op"] = BO->getOpcodeStr().str();
        o["lhs"] = sx(C, BO->getLHS(), gDepth);
        o["rhs"] = sx(C, BO->getRHS(), gDepth);
        addLoc(C, o, BO);
        ev.push_back(std::move(o));
      }
      return;
    }
    if (auto *UO = dyn_cast<UnaryOperator>(E)) {
      if (UO->isIncrementDecrementOp()) {
        json::Object o;
        o["k"] = "assign";
        o["op"] = UnaryOperator::getOpcodeStr(UO->getOpcode()).str();
        o["lhs"] = sx(C, UO->getSubExpr(), gDepth);
        o["rhs"] = nullptr;
        addLoc(C, o, UO);
        ev.push_back(std::move(o));
      }
      return;
    }
    if (auto *TE = dyn_cast<CXXThrowExpr>(E)) {
      json::Object o;
      o["k"] = "throw";
      addLoc(C, o, TE);
      ev.push_back(std::move(o));
      return;
    }
    if (auto *DE = dyn_cast<CXXDeleteExpr>(E)) {
      json::Object o;
      o["k"] = "delete";
      o["arg"] = sx(C, DE->getArgument(), gDepth);
      addLoc(C, o, DE);
      ev.push_back(std::move(o));
      return;
    }
    if (auto *NE = dyn_cast<CXXNewExpr>(E)) {
      json::Object o;
      o["k"] = "new";
      o["ty"] = tyStr(C, NE->getAllocatedType());
      o["x"] = sx(C, NE, gDepth);
      addLoc(C, o, NE);
      ev.push_back(std::move(o));
      return;
    }
    if (auto *LE = dyn_cast<LambdaExpr>(E)) {
      json::Object o;
      o["k"] = "lambda";
      o["name"] = lambdaName(C, LE->getLambdaClass());
      {
        // captures (explicit and implicit): [name, "copy" | "ref"]; `this` is ["this", "copy"|"ref"]
        json::Array caps;
        for (const LambdaCapture &LC : LE->captures()) {
          std::string nm = LC.capturesThis() ? "this" : (LC.capturesVariable() && LC.getCapturedVar() ? LC.getCapturedVar()->getNameAsString() : "?");
          bool byref = LC.getCaptureKind() == LCK_ByRef || LC.getCaptureKind() == LCK_This;
          caps.push_back(json::Array{nm, byref ? "ref" : "copy"});
        }
        o["caps"] = std::move(caps);
      }
      addLoc(C, o, LE);
      ev.push_back(std::move(o));
      return;
    }
    return;
  }
  if (auto *RS = dyn_cast<ReturnStmt>(S)) {
    json::Object o;
    o["k"] = "ret";
    o["val"] = RS->getRetValue() ? sx(C, RS->getRetValue(), gDepth) : json::Value(nullptr);
    addLoc(C, o, RS);
    ev.push_back(std::move(o));
    return;
  }
  if (auto *DS = dyn_cast<DeclStmt>(S)) {
    for (const Decl *D : DS->decls())
      if (auto *VD = dyn_cast<VarDecl>(D)) {
        json::Object o;
        o["k"] = "decl";
        o["var"] = VD->getNameAsString();
        o["ty"] = tyStr(C, VD->getType());
        if (VD->isStaticLocal()) o["static"] = true;
        o["init"] = VD->getInit() ? sx(C, VD->getInit(), gDepth) : json::Value(nullptr);
        addLoc(C, o, DS);
        ev.push_back(std::move(o));
      }
    return;
  }
}

// ------------------------------------------------------------- functions

static std::string termKind(const Stmt *T) {
  if (!T) return "";
  if (isa<IfStmt>(T)) return "if";
  if (isa<WhileStmt>(T)) return "while";
  if (isa<ForStmt>(T)) return "for";
  if (isa<CXXForRangeStmt>(T)) return "forrange";
  if (isa<DoStmt>(T)) return "do";
  if (isa<SwitchStmt>(T)) return "switch";
  if (isa<ConditionalOperator>(T)) return "cond";
  if (auto *BO = dyn_cast<BinaryOperator>(T)) return BO->getOpcodeStr().str();
  if (isa<BreakStmt>(T)) return "break";
  if (isa<ContinueStmt>(T)) return "continue";
  if (isa<GotoStmt>(T)) return "goto";
  if (isa<CXXTryStmt>(T)) return "try";
  return T->getStmtClassName();
}

static void dumpFunction(Ctx &C, const FunctionDecl *FD, const std::string &tmplKind) {
  if (!FD->doesThisDeclarationHaveABody()) return;
  if (C.doneFns.count(FD)) return;
  C.doneFns.insert(FD);
  std::string file = fileOf(C, FD->getLocation());
  if (!inRoot(file)) return;
  if (file != C.mainFile && !C.HdrRe.match(file)) return;
  if (file == C.mainFile && gNoMain) return;
  std::string name = fnName(C, FD);
  if (!gFnRe.empty() && !C.FnRe.match(name)) return;
  std::string id = fnId(C, FD);
  std::string key = id + "@" + file + ":" + std::to_string(lineOf(C, FD->getLocation()));
  if (C.doneKeys.count(key)) return;
  C.doneKeys.insert(key);

  json::Object F;
  F["name"] = name;
  F["id"] = id;
  F["file"] = file;
  F["line"] = (int64_t)lineOf(C, FD->getLocation());
  F["endline"] = (int64_t)lineOf(C, FD->getEndLoc());
  F["ret"] = tyStr(C, FD->getReturnType());
  F["tmpl"] = tmplKind;
  json::Array params;
  for (const ParmVarDecl *P : FD->parameters()) params.push_back(arr({P->getNameAsString(), tyStr(C, P->getType())}));
  F["params"] = std::move(params);
  std::string kind = "function";
  if (auto *MD = dyn_cast<CXXMethodDecl>(FD)) {
    kind = "method";
    const CXXRecordDecl *RD = MD->getParent();
    F["cls"] = qualName(RD);
    if (RD->isLambda()) {
      kind = "lambda";
      // enclosing function
      const DeclContext *DC = RD->getDeclContext();
      while (DC && !isa<FunctionDecl>(DC)) DC = DC->getParent();
      if (DC) F["parent"] = fnId(C, cast<FunctionDecl>(DC));
    }
    F["const"] = MD->isConst();
    F["static"] = MD->isStatic();
    F["virtual"] = MD->isVirtual();
    json::Array ov;
    for (const CXXMethodDecl *O : MD->overridden_methods()) ov.push_back(fnId(C, O));
    F["overrides"] = std::move(ov);
    if (auto *CD = dyn_cast<CXXConstructorDecl>(MD)) {
      kind = CD->isCopyConstructor() ? "copyctor" : CD->isMoveConstructor() ? "movector" : "ctor";
      json::Array inits;
      for (const CXXCtorInitializer *I : CD->inits()) {
        json::Object io;
        if (I->isAnyMemberInitializer()) io["field"] = qualName(I->getAnyMember());
        else if (I->isBaseInitializer()) io["base"] = tyStr(C, QualType(I->getBaseClass(), 0));
        else if (I->isDelegatingInitializer()) io["delegating"] = true;
        io["written"] = I->isWritten();
        io["init"] = sx(C, I->getInit(), gDepth);
        inits.push_back(std::move(io));
      }
      F["inits"] = std::move(inits);
    } else if (isa<CXXDestructorDecl>(MD)) kind = "dtor";
    else if (MD->isCopyAssignmentOperator()) kind = "copyassign";
    else if (MD->isMoveAssignmentOperator()) kind = "moveassign";
  }
  F["kind"] = kind;

  // CFG
  CFG::BuildOptions BO;
  BO.setAllAlwaysAdd();
  BO.AddImplicitDtors = true;
  BO.AddTemporaryDtors = false;
  BO.AddEHEdges = false;
  BO.AddInitializers = true;
  BO.AddCXXDefaultInitExprInCtors = true;
  BO.PruneTriviallyFalseEdges = false;
  if (FD->isDependentContext()) {
    // clang's CFG builder is not robust on implicit destructors / initialisers of dependent types
    BO.AddImplicitDtors = false;
    BO.AddInitializers = false;
    BO.AddCXXDefaultInitExprInCtors = false;
  }
  std::unique_ptr<CFG> G = CFG::buildCFG(FD, FD->getBody(), C.AC, BO);
  if (!G) {
    F["nocfg"] = true;
    C.functions.push_back(std::move(F));
    return;
  }
  json::Array blocks;
  for (const CFGBlock *B : *G) {
    json::Object bo;
    bo["id"] = (int64_t)B->getBlockID();
    json::Array succ;
    for (auto I = B->succ_begin(); I != B->succ_end(); ++I) {
      const CFGBlock *SB = I->getReachableBlock();
      if (!SB) SB = I->getPossiblyUnreachableBlock();
      succ.push_back(SB ? (int64_t)SB->getBlockID() : (int64_t)-1);
    }
    bo["succ"] = std::move(succ);
    if (B->hasNoReturnElement()) bo["noreturn"] = true;
    json::Array ev;
    for (const CFGElement &El : *B) {
      if (auto CS = El.getAs<CFGStmt>()) {
        emitEvents(C, CS->getStmt(), FD, ev);
      } else if (auto AD = El.getAs<CFGAutomaticObjDtor>()) {
        const VarDecl *VD = AD->getVarDecl();
        json::Object o;
        o["k"] = "autodtor";
        o["var"] = VD->getNameAsString();
        o["ty"] = tyStr(C, VD->getType());
        if (const Stmt *T = AD->getTriggerStmt()) o["line"] = (int64_t)lineOf(C, T->getEndLoc());
        ev.push_back(std::move(o));
      } else if (auto IN = El.getAs<CFGInitializer>()) {
        const CXXCtorInitializer *I = IN->getInitializer();
        json::Object o;
        o["k"] = "init";
        if (I->isAnyMemberInitializer()) o["field"] = qualName(I->getAnyMember());
        else if (I->isBaseInitializer()) o["base"] = tyStr(C, QualType(I->getBaseClass(), 0));
        o["init"] = sx(C, I->getInit(), gDepth);
        o["line"] = (int64_t)lineOf(C, I->getSourceLocation());
        ev.push_back(std::move(o));
      }
    }
    bo["ev"] = std::move(ev);
    if (const Stmt *T = B->getTerminatorStmt()) {
      json::Object to;
      to["k"] = termKind(T);
      to["line"] = (int64_t)lineOf(C, T->getBeginLoc());
      if (const Stmt *Cond = B->getTerminatorCondition()) to["cond"] = sx(C, Cond, gDepth);
      if (auto *SS = dyn_cast<SwitchStmt>(T)) {
        // successors of a switch are in reverse case order followed by default:
        // record the case labels per successor block instead
        json::Array cases;
        bool hasDefault = false;
        for (const SwitchCase *SC = SS->getSwitchCaseList(); SC; SC = SC->getNextSwitchCase()) {
          if (auto *CS = dyn_cast<CaseStmt>(SC)) cases.push_back(sx(C, CS->getLHS(), 4));
          else hasDefault = true;
        }
        to["cases"] = std::move(cases);
        to["default"] = hasDefault;
      }
      bo["term"] = std::move(to);
    }
    if (const Stmt *L = B->getLabel()) {
      if (auto *CS = dyn_cast<CaseStmt>(L)) bo["case"] = sx(C, CS->getLHS(), 4);
      else if (isa<DefaultStmt>(L)) bo["case"] = "default";
      else if (auto *LS = dyn_cast<LabelStmt>(L)) bo["label"] = LS->getName();
    }
    if (const Stmt *LT = B->getLoopTarget()) bo["looptarget"] = (int64_t)lineOf(C, LT->getBeginLoc());
    blocks.push_back(std::move(bo));
  }
  F["blocks"] = std::move(blocks);
  F["entry"] = (int64_t)G->getEntry().getBlockID();
  F["exit"] = (int64_t)G->getExit().getBlockID();
  C.functions.push_back(std::move(F));
}

// ---------------------------------------------------------------- visitor

static bool hasMutableSub(QualType T, int fuel = 6) {
  if (fuel <= 0 || T.isNull()) return false;
  T = T.getCanonicalType();
  while (const ArrayType *AT = dyn_cast<ArrayType>(T.getTypePtr())) T = AT->getElementType().getCanonicalType();
  const CXXRecordDecl *RD = T->getAsCXXRecordDecl();
  if (!RD || !RD->hasDefinition()) return false;
  if (RD->hasMutableFields()) return true;
  return false;
}

class Visitor : public RecursiveASTVisitor<Visitor> {
public:
  explicit Visitor(Ctx &C) : C(C) {}
  bool shouldVisitTemplateInstantiations() const { return true; }
  bool shouldVisitImplicitCode() const { return false; }

  bool VisitFunctionDecl(FunctionDecl *FD) {
    if (!FD->doesThisDeclarationHaveABody()) return true;
    std::string tk = "none";
    if (FD->isTemplateInstantiation()) {
      tk = "inst";
      std::string n = fnName(C, FD);
      if (FD->getTemplateSpecializationKind() != TSK_ExplicitInstantiationDefinition &&
          FD->getTemplateSpecializationKind() != TSK_ExplicitSpecialization && !C.InstRe.match(n))
        return true;
    } else if (FD->isDependentContext()) {
      tk = "pattern";
    }
    dumpFunction(C, FD, tk);
    return true;
  }
  bool VisitLambdaExpr(LambdaExpr *LE) {
    if (const CXXMethodDecl *MD = LE->getCallOperator()) {
      std::string tk = MD->isDependentContext() ? "pattern" : "none";
      dumpFunction(C, MD, tk);
    }
    return true;
  }
  bool VisitCXXRecordDecl(CXXRecordDecl *RD) {
    if (!RD->isThisDeclarationADefinition() || RD->isLambda()) return true;
    std::string file = fileOf(C, RD->getLocation());
    if (!inRoot(file)) return true;
    if (file != C.mainFile && !C.HdrRe.match(file)) return true;
    if (file == C.mainFile && gNoMain) return true;
    bool isInst = isa<ClassTemplateSpecializationDecl>(RD) && !cast<ClassTemplateSpecializationDecl>(RD)->isExplicitSpecialization();
    std::string name = qualName(RD);
    if (isInst && !C.InstRe.match(name)) return true;
    json::Object o;
    o["name"] = name;
    o["file"] = file;
    o["line"] = (int64_t)lineOf(C, RD->getLocation());
    o["tmpl"] = isInst ? "inst" : (RD->isDependentContext() ? "pattern" : "none");
    json::Array bases;
    for (const CXXBaseSpecifier &B : RD->bases()) {
      QualType BT = B.getType();
      std::string bn;
      if (const CXXRecordDecl *BD = BT->getAsCXXRecordDecl()) bn = qualName(BD);
      else bn = tyStr(C, BT);
      bases.push_back(bn);
    }
    o["bases"] = std::move(bases);
    json::Array fields;
    for (const Decl *D : RD->decls()) {
      if (auto *FDl = dyn_cast<FieldDecl>(D)) {
        json::Object f;
        f["name"] = FDl->getNameAsString();
        f["ty"] = tyStr(C, FDl->getType());
        f["cty"] = tyStr(C, FDl->getType().getCanonicalType());
        f["mutable"] = FDl->isMutable();
        f["const"] = FDl->getType().isConstQualified();
        f["line"] = (int64_t)lineOf(C, FDl->getLocation());
        f["access"] = (int64_t)FDl->getAccess();
        fields.push_back(std::move(f));
      } else if (auto *VD = dyn_cast<VarDecl>(D)) {
        json::Object f;
        f["name"] = VD->getNameAsString();
        f["ty"] = tyStr(C, VD->getType());
        f["static"] = true;
        f["const"] = VD->getType().isConstQualified();
        f["line"] = (int64_t)lineOf(C, VD->getLocation());
        fields.push_back(std::move(f));
      }
    }
    o["fields"] = std::move(fields);
    json::Array methods;
    for (const CXXMethodDecl *MD : RD->methods()) {
      if (MD->isImplicit()) continue;
      json::Object m;
      m["id"] = fnId(C, MD);
      m["name"] = MD->getNameAsString();
      m["virtual"] = MD->isVirtual();
      m["pure"] = MD->isPure();
      m["const"] = MD->isConst();
      m["ret"] = tyStr(C, MD->getReturnType());
      m["access"] = (int64_t)MD->getAccess();
      m["deleted"] = MD->isDeleted();
      m["defaulted"] = MD->isDefaulted();
      m["line"] = (int64_t)lineOf(C, MD->getLocation());
      json::Array ov;
      for (const CXXMethodDecl *O : MD->overridden_methods()) ov.push_back(fnId(C, O));
      m["overrides"] = std::move(ov);
      methods.push_back(std::move(m));
    }
    o["methods"] = std::move(methods);
    o["abstract"] = RD->isAbstract();
    C.classes.push_back(std::move(o));
    return true;
  }
  bool VisitEnumDecl(EnumDecl *ED) {
    if (!ED->isThisDeclarationADefinition()) return true;
    std::string file = fileOf(C, ED->getLocation());
    if (!inRoot(file)) return true;
    json::Object o;
    o["name"] = qualName(ED);
    o["file"] = file;
    o["line"] = (int64_t)lineOf(C, ED->getLocation());
    json::Array en;
    for (const EnumConstantDecl *EC : ED->enumerators()) {
      llvm::SmallString<32> s;
      EC->getInitVal().toString(s, 10);
      en.push_back(arr({qualName(EC), std::string(s.str())}));
    }
    o["enumerators"] = std::move(en);
    C.enums.push_back(std::move(o));
    return true;
  }
  bool VisitVarDecl(VarDecl *VD) {
    if (isa<ParmVarDecl>(VD)) return true;
    if (!VD->hasGlobalStorage()) return true;
    if (!VD->isThisDeclarationADefinition()) {
      // static data member declarations inside the class: only the definition counts,
      // but inline/constexpr in-class initialised members are definitions already
      return true;
    }
    if (VD->isTemplated() || VD->getDeclContext()->isDependentContext()) {
      // uninstantiated pattern: still interesting (reported as pattern)
    }
    std::string file = fileOf(C, VD->getLocation());
    if (!inRoot(file)) return true;
    json::Object o;
    o["name"] = qualName(VD);
    o["file"] = file;
    o["line"] = (int64_t)lineOf(C, VD->getLocation());
    QualType T = VD->getType();
    o["ty"] = tyStr(C, T);
    QualType ET = T.getCanonicalType();
    bool cq = ET.isConstQualified();
    while (const ArrayType *AT = dyn_cast<ArrayType>(ET.getTypePtr())) {
      ET = AT->getElementType().getCanonicalType();
      cq = cq || ET.isConstQualified();
    }
    o["const"] = cq;
    o["constexpr"] = VD->isConstexpr();
    o["ref"] = T->isReferenceType();
    o["ptr"] = T->isPointerType();
    if (T->isPointerType()) o["pointee_const"] = T->getPointeeType().isConstQualified();
    o["mutable_sub"] = hasMutableSub(T);
    o["tls"] = VD->getTLSKind() != VarDecl::TLS_None;
    o["local"] = VD->isStaticLocal();
    o["member"] = VD->isStaticDataMember();
    o["pattern"] = VD->getDeclContext()->isDependentContext() || VD->isTemplated();
    o["inst"] = VD->getTemplateSpecializationKind() != TSK_Undeclared && VD->getTemplateSpecializationKind() != TSK_ExplicitSpecialization;
    if (VD->isStaticLocal()) {
      const DeclContext *DC = VD->getDeclContext();
      while (DC && !isa<FunctionDecl>(DC)) DC = DC->getParent();
      if (DC) o["func"] = fnId(C, cast<FunctionDecl>(DC));
    }
    if (const Expr *I = VD->getInit()) {
      o["init"] = sx(C, I, 5);
      bool constInit = false;
      if (!I->isValueDependent()) constInit = VD->evaluateValue() != nullptr && !VD->getType()->isReferenceType() ? true : I->isConstantInitializer(*C.AC, T->isReferenceType());
      o["constinit"] = constInit;
    } else {
      o["init"] = nullptr;
      o["constinit"] = true; // zero-initialised
    }
    bool hasRec = false;
    if (const CXXRecordDecl *RD = ET->getAsCXXRecordDecl()) {
      hasRec = true;
      o["rec"] = qualName(RD);
    }
    o["isrec"] = hasRec;
    C.statics.push_back(std::move(o));
    return true;
  }

private:
  Ctx &C;
};

class Consumer : public ASTConsumer {
public:
  explicit Consumer(Ctx &C) : C(C) {}
  void HandleTranslationUnit(ASTContext &AC) override {
    C.AC = &AC;
    C.SM = &AC.getSourceManager();
    C.PP = PrintingPolicy(AC.getLangOpts());
    C.PP.SuppressTagKeyword = true;
    C.PP.FullyQualifiedName = true;
    C.PP.Bool = true;
    const FileEntry *FE = C.SM->getFileEntryForID(C.SM->getMainFileID());
    if (FE) {
      llvm::SmallString<256> s(FE->tryGetRealPathName());
      if (s.empty()) s = FE->getName();
      llvm::sys::path::remove_dots(s, true);
      C.mainFile = std::string(s.str());
    }
    Visitor V(C);
    V.TraverseDecl(AC.getTranslationUnitDecl());
    for (auto I = C.SM->fileinfo_begin(); I != C.SM->fileinfo_end(); ++I) {
      llvm::SmallString<256> s(I->first->getName());
      llvm::sys::path::remove_dots(s, true);
      std::string f(s.str());
      if (inRoot(f)) C.deps.insert(f);
    }
  }

private:
  Ctx &C;
};

class Action : public ASTFrontendAction {
public:
  explicit Action(Ctx &C) : C(C) {}
  std::unique_ptr<ASTConsumer> CreateASTConsumer(CompilerInstance &CI, StringRef) override {
    return std::make_unique<Consumer>(C);
  }

private:
  Ctx &C;
};

class Factory : public tooling::FrontendActionFactory {
public:
  explicit Factory(Ctx &C) : C(C) {}
  std::unique_ptr<FrontendAction> create() override { return std::make_unique<Action>(C); }

private:
  Ctx &C;
};

} // namespace

int main(int argc, const char **argv) {
  std::vector<std::string> files;
  std::vector<std::string> cargs;
  std::vector<std::pair<std::string, std::string>> overlays;
  int i = 1;
  for (; i < argc; ++i) {
    std::string a = argv[i];
    if (a == "--") { ++i; break; }
    if (a == "--root" && i + 1 < argc) { gRoot = argv[++i]; if (gRoot.back() != '/') gRoot += "/"; }
    else if (a == "-o" && i + 1 < argc) gOut = argv[++i];
    else if (a == "--hdr" && i + 1 < argc) gHdrRe = argv[++i];
    else if (a == "--inst" && i + 1 < argc) gInstRe = argv[++i];
    else if (a == "--fn" && i + 1 < argc) gFnRe = argv[++i];
    else if (a == "--depth" && i + 1 < argc) gDepth = atoi(argv[++i]);
    else if (a == "--no-main") gNoMain = true;
    else if (a == "--overlay" && i + 1 < argc) {
      std::string o = argv[++i];
      auto p = o.find('=');
      if (p == std::string::npos) { llvm::errs() << "bad overlay\n"; return 2; }
      overlays.push_back({o.substr(0, p), o.substr(p + 1)});
    } else files.push_back(a);
  }
  for (; i < argc; ++i) cargs.push_back(argv[i]);
  if (files.size() != 1 || gOut.empty()) {
    llvm::errs() << "usage: factdump [opts] -o out.json file -- args\n";
    return 2;
  }
  Ctx C;
  C.HdrRe = llvm::Regex(gHdrRe);
  C.InstRe = llvm::Regex(gInstRe.empty() ? "^$" : gInstRe);
  C.FnRe = llvm::Regex(gFnRe.empty() ? ".*" : gFnRe);
  tooling::FixedCompilationDatabase DB(".", cargs);
  tooling::ClangTool Tool(DB, files);
  std::vector<std::string> keep; // keep overlay contents alive
  for (auto &ov : overlays) {
    std::ifstream in(ov.second);
    if (!in) { llvm::errs() << "cannot read overlay " << ov.second << "\n"; return 2; }
    std::stringstream ss;
    ss << in.rdbuf();
    keep.push_back(ss.str());
  }
  for (size_t k = 0; k < overlays.size(); ++k) Tool.mapVirtualFile(overlays[k].first, keep[k]);
  Factory F(C);
  int rc = Tool.run(&F);
  json::Object top;
  top["unit"] = files[0];
  top["rc"] = (int64_t)rc;
  json::Array deps;
  for (auto &d : C.deps) deps.push_back(d);
  top["deps"] = std::move(deps);
  top["functions"] = std::move(C.functions);
  top["classes"] = std::move(C.classes);
  top["statics"] = std::move(C.statics);
  top["enums"] = std::move(C.enums);
  std::error_code EC;
  llvm::raw_fd_ostream os(gOut, EC);
  if (EC) { llvm::errs() << "cannot write " << gOut << "\n"; return 2; }
  os << json::Value(std::move(top));
  os.close();
  return rc == 0 ? 0 : 3;
}
