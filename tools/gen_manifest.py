#!/usr/bin/env python3
"""Regenerates /verif/MANIFEST.json from the tables below (run by hand)."""
import json, os
V = os.path.dirname(os.path.dirname(os.path.abspath(__file__)))

CLAIMED = {
    # id: (technique, level text)
    "C18": ("HANDOUT/EFFECT/WHOWRITES/FORWARD rules on clang CFG facts of State.cpp + StateImpl.h (must-pass-through on every path)",
            "Static decision of the structural clauses of DESIGN section 3 C18: every hand-out of state-variable storage lowers the documented stage and bumps the value version on all paths; "
            "core mutators perform their tabled version/flag/notification effects; copy discipline; only reviewed functions write stage/version fields; State forwards to StateImpl. "
            "Holds for every history because it holds on every CFG path; comparison operators and loop bounds are not decided."),
    "C33": ("must-hold LOCKSET data-flow, condition-variable protocol (CVPROTO), ORDER/STRIDE/PAIRCALL path rules on the CFGs of the three executors",
            "Static decision of DESIGN section 3 C33: every access to a shared executor field is under its mutex or a checked published-before-wake access; every predicate-changing write is "
            "followed by the right notify; initialize < execute < barrier(finish under lock) on every path; index striping shape; 2D pass flags; work-queue pop/execute/delete/complete pairing. "
            "Holds for every schedule because it holds on every path with a must-hold lockset; the triangle/square partition tables and general deadlock freedom are not decided."),
    "C17": ("CONFINE (thread-local argument storage), WHOWRITES, accumulator effect-compare, mode agreement, task/executor COUPLING and dispatch REACHDEF on GeneralForceSubsystem.cpp",
            "Static decision of DESIGN section 3 C17: in every multi-thread execute() only thread-local accumulators are written, shared arrays only in finish() (serialised by the executor, C33); "
            "each accumulator merged is zeroed in initialize() of the same mode; the non-thread-safe task is always paired with a one-thread executor; dispatch counts and index mapping. "
            "Holds for every schedule/thread count; floating-point summation order and user calcForce bodies are not decided."),
    "C16": ("STAGE coherence of allocation sites vs cache fillers (inlining depth 3), POSONLY, explicit-invalidation MUSTCALL, validity-FLAG / MANUALFLAG path rules, REFILL (containers inside cache entries emptied before being appended to) over Simbody/src",
            "Static decision of the stale-cache clauses of DESIGN section 3 C16: every cache filler reads only variables that invalidate its depends-on stage (or are explicitly invalidated / never written); "
            "position-cached forces read nothing later than Position; Gravity's explicit invalidation pairing; cachedForcesAreValid and FunctionBased manual flags are reset/set on all paths. "
            "Holds for every realization history since every computed result lives in such a cache; numerical equality of two histories and matter-subsystem reads through SBStateDigest are not decided."),
    "C38": ("TOPO (setter => topology invalidation), shared STAGE/POSONLY, enabled-flag GUARD, enabled-list REACHDEF and Gravity PREFILL path rules",
            "Static decision of one clause of C38 only -- 'changes to an element's parameters, enable state or exclusions take effect at the next realization' (DESIGN section 3): "
            "every topology-parameter write invalidates the topology cache; every parameter variable's invalidation stage is coherent with what caches it; every per-force call honours the enabled flag; "
            "Gravity's zero/NaN pre-fill accompanies every parameter change that needs it. The force laws and energies themselves are numerical and are NOT decided."),
    "C21": ("ORDER pipeline automaton (prescribeQ<realize<projectQ<prescribeU<realize<projectU with write-resets) over every DAE-step / interpolation / back-up / CPodes-projection body; helper summaries verified by the same automaton",
            "Static decision of DESIGN section 3 C21: every state an integrator can hand back was produced by a path that completes the prescribe/realize/project pipeline after the last state write, "
            "with the projection accuracy taken from getConstraintToleranceInUse() and failures rejecting the step. Holds for every model, accuracy and step sequence that drives these paths; "
            "that projection converges / achieves the tolerance is numerical (C09) and not decided. One genuine violation on the pinned tree is recorded as a known finding."),
    "C19": ("TYPESTATE analysis of the step-communication status machine (last-status-written per return, dominance, refusal branch always throws, final time examined before every further step), REACHDEF of the step limit, WINDOW (event window reported only after the report time was compared with both ends), on both stepTo implementations",
            "Static decision of the status-machine clauses of C19 (DESIGN section 3): EndOfSimulation <=> FinalTimeHasBeenReturned with the final-time guard, refusal of further stepping, "
            "each returned status paired with its tabled status write in both sibling implementations, and the internal step limit bounded by min(scheduled, final[, report]) by data flow. "
            "Holds for every request sequence because it holds on every path; 'exactly at that time', monotonic time and event-window exclusion are value comparisons and are not decided."),
    "C22": ("SWITCH exhaustiveness + per-case call/argument table on TimeStepperRep::stepTo, PAIRIDX family agreement of handler/id parallel arrays per natural loop, REACHDEF on findEventCandidates, CLONE/TIES/DEADCOND on the scheduling routines, WINDOW (shared with C19)",
            "Static decision of the dispatch clauses of C22 (DESIGN section 3): every step status has a case; each handler-invoking case passes the tabled cause and id list on the advanced state and is "
            "followed on every path by reinitialize(lowestModified, shouldTerminate) taken from that call's results; handler/reporter arrays are only paired with the id/index arrays of their own family and "
            "under the right cause; a candidate is listed only under a masked sign change of the same event. Window width, bracketing, ordering of crossings and exact handler times are numerical/time logic and not decided."),
    "C46": ("INVENTORY: whole-library enumeration of static/thread-storage variables from the AST, classified immutable / never-written / thread-local accumulator / reviewed (with re-checked side conditions)",
            "Static decision of C46's own mechanism, 'absence of shared mutable static state across System/Integrator instances' (DESIGN section 3): every static-storage variable in the libraries and repository headers is "
            "immutable by type, never written by any analysed function, a thread-local accumulator zeroed by its protocol, or in the reviewed table; a new or newly written static, a registry class gaining state, "
            "or a broken side condition is reported. Quick tier: the anchored directories; thorough: all 262 library units and every repository header. Bit-identity of actual runs is not decided."),
    "C32": ("MUSTCHECK (end-of-input test on every accepting path after a stream extraction, through helper summaries), TABLE (non-finite tokens written vs read), AGREE (read/write overload sets and element order), XMLESC (XML entity table: writer / reader / who-may-keep-quotes agreement)",
            "Static decision of the structural clauses of C32 (DESIGN section 3): every text->value conversion reports success only after checking that the whole string was consumed; the non-finite tokens written are among "
            "those the readers accept; every writable type is readable (tabled exceptions) with the same sub-object order. Digit-exact float round trips, XML escaping and TinyXML parsing are not decided."),
    "C31": ("EFFECT-compare: mod-set of the value producers vs reset-set of setSeed per dynamic class, with a dead-under-guard table whose guards are checked; DERIVED (a cached function of other fields is recomputed after each write of its sources)",
            "Static decision of 'deterministic functions of their seed' (DESIGN section 3, C31): every generator field that producing values modifies is re-initialised by setSeed of the same class "
            "(which must call its base) or is unreadable until rewritten because setSeed resets its guard. Ranges, integer-mode bounds and statistics are not decided."),
    "C26": ("HANDOUT fixed point (mutable access only after detach), EFFECT (detach/share/clone) and NOFLOW (copy operations never read the source payload) on the class-template patterns of the pointer wrappers; REMEMBER (ReinitOnCopy's remembered initial value comes from the source's on copy and move construction, both specialisations agreeing); RELOCATE must-pass rule on Array_ (buffer released only after its elements were destroyed)",
            "Static decision of the pointer-wrapper clauses of C26 (DESIGN section 3): every CloneOnWritePtr member that exposes mutable access or releases ownership detaches first; copies share/increment, detach clones exactly when shared; "
            "ClonePtr copies clone; ReferencePtr/ResetOnCopy/ReinitOnCopy copy operations cannot carry the source's value. All of Array_/ArrayView_ (element order, exactly-once construction/destruction, growth) is value/heap semantics and NOT decided."),
    "C23": ("PAIRCALL path rule (update slot written => marked realized with the same index on every path, in the function or in every caller), guard-index agreement, realize-hook MUSTCALL, getter/writer slot agreement; DEFN routing tables (operator per arithmetic measure, Integrate's derivative / initial-condition / z routing, Extreme's comparison and neutral element per operation with an exhaustive switch, Delay's time - delay); DEPSTAGE (every operand whose value is read contributes to the depends-on stage); CONDALLOC (a resource allocated under a flag is used only under it)",
            "Static decision of two structural clauses of C23 (DESIGN section 3): the auto-update bookkeeping on which Extreme, Delay, Differentiate (and the other auto-update users) depend -- a value written into an update slot is marked realized on all paths with the same index, the 'already realized' test uses that index, the Acceleration-stage hook reaches the update, the getter reads a written slot -- "
            "and the ROUTING each definition prescribes: which operands are combined by which operator (Plus/Minus/Scale), which measure feeds zdot, the initial z, the value and the k-th derivative of Integrate, which comparison and start value each Extreme operation uses, and that Delay looks up time minus delay. "
            "The numerical values (integration accuracy, interpolation in the delay buffer, which history entries are kept, differentiation formulas) are NOT decided."),
    "C24": ("CLONE (float~double and complex<float>~complex<double> wrapper specialisations issue identical LAPACK call traces modulo prefix/type/local names), REACHDEF (lwork and workspace derived from the -1 query to the same routine), OPTCHAR (option characters valid for the real/complex flavour reached, decided per caller instantiation), DEFTOL (sibling default-tolerance agreement, no fixed-precision constant in element-type templates); handle/Rep discipline over Factor*.cpp and Eigen.cpp: OVERRIDE (handle-called RepBase virtuals have typed overriders), SHADOW, PRESERVE (stored input never handed to a destroying LAPACK driver), NEEDFLAG (lazy-evaluation flags)",
            "Static decision of the clause the property names as the risk, 'LAPACK argument conversion and workspace sizing is separate code per type' (DESIGN section 3, C24): per wrapper family the specialisations agree argument-for-argument, "
            "and every real call's lwork/workspace come from the preceding workspace query. Everything in Factor*.cpp / Eigen.cpp (rank logic, residuals, orderings) is numerical and NOT decided."),
    "C07": ("COMPLETE (virtual-set completeness per declared (mp,mv,ma)), AGREE (bodies selecting the kinematic input arrays == bodies selecting the force output arrays), LEVEL (count/segment/callee of one level per matrix builder), OPERATOR (multiplyByPVA: per level, error view and bias view over the same rows, bias subtracted on every path), FRAME adjacency in the constraint equations",
            "Static decision of the structural clauses of C07 (DESIGN section 3): every built-in constraint implements the whole error/derivative/force virtual set of each level it declares equations for; "
            "at each level the velocity-level error routine takes kinematics of exactly the constrained bodies/mobilizers to which the matching addIn...Forces routine applies multiplier forces (necessary for G' = transpose of G); "
            "each of the seven constraint-matrix builders uses the row count, row segment and per-constraint routine of one level; frame adjacency of every parseable rotation/transform product in the constraint equations. "
            "That verr really is d/dt perr, the bias terms, signs and magnitudes are numerical and NOT decided."),
    "C08": ("GUARD rule over the natural loops of SimbodyMatterSubsystemRep that walk the constraint set (isConstraintDisabled on the loop variable before any use, or delegation to callees with a verified entry guard); POWER pairing rule on Constraint::calcPower (force entry / velocity of the same constrained body, both in Ground; mobility force / u of the same constrained u)",
            "Static decision of TWO clauses of C08 (DESIGN section 3): 'disabled constraints have no effect on any result' -- every constraint loop that computes with a State skips disabled constraints or calls only self-guarding callees (six loops visit every declared constraint on purpose, tabled with reasons) -- and the structure of 'reported constraint power': "
            "calcPower is minus the sum over the whole force arrays of F_G[b] . V_G(body of b) and f[c] * u[u-index of c], with the Ground-frame velocity accessor (never an Ancestor-frame ConstraintImpl accessor) and the same index on both factors. "
            "Constraint satisfaction, the multiplier solve, Newton's law and that the power of a workless constraint actually vanishes are numerical and NOT decided."),
    "C09": ("ACCURACY (success only through a fresh `norm <= required accuracy` test; weighted-norm REACHDEF), QUATS (normalisation must-pass after q changes), PRESCRIBED (update provenance through unpackFree into a zeroed vector, free / prescribed+zero list discipline, Free-only normalisation), DISPATCH (accuracy -> options, prescribe/realize/project order, pass-through)",
            "Static decision of the structural clauses of C09 (DESIGN section 3): projectQ / projectU report success only on paths where, after the last change of the state, the error norm was recomputed and tested against opts.getRequiredAccuracy(), the constraint-error norm being the documented weighted RMS / infinity norm; "
            "quaternions are normalised after every change of q before success; prescribed coordinates are not touched (updates come from the free-variable solution through unpackFreeQ/U, which address only the free index list; quaternion normalisation skips non-Free mobilizers); "
            "the System-level entry points hand the caller's accuracy down unchanged and run prescribe/realize/project in order. Convergence, the minimum-norm property of the least-squares step and the `already satisfied` entry test are numerical and NOT decided."),
    "C10": ("PARTITION (switch exhaustiveness + case->list table per level), LOCKMAP (lock level / Motion -> method table, precedence), FILL (pool, offset, locked array and Motion routine per level), APPLY (pool->state family agreement, coverage of both lists), LOCK (writers through the Instance-stage variable), FORWARD (Custom motion forwarders), VARSTAGE (invalidation stage of every state variable a Motion routine reads <= stage that fills its pool)",
            "Static decision of the bookkeeping clauses of C10 (DESIGN section 3): the chain of tables that makes a prescribed or locked coordinate take its prescribed value -- lock()/lockAt()/unlock()/Motion::disable() write the Instance-stage variable; "
            "realizeInstance maps lock level / Motion to (qMethod,uMethod,udotMethod) as documented and partitions every mobilizer's q, u, udot indices into the presX / zeroX / freeX list of the same level with the right pool offset; "
            "realizeTime/Position/Dynamics fill the pool of their level from the lock values or the Motion routine of that level; prescribeQ/U copy every pool entry to the state entry of the same list and zero the zero lists; Custom motions forward each routine to its namesake. "
            "Agreement is decided level by level on every path. The values computed by Motion objects, the known/unknown partition inside the O(n) forward dynamics and the motion multipliers are numerical and NOT decided."),
    "C13": ("PAIR+- structural rule on the action/reaction applications of every two-body element (targets, signs, force expression, own station/arm, body numbering, one common point of application for the contact elements) and FRAME monogram adjacency in the force routines",
            "Static decision of the structural clauses of C13 (DESIGN section 3): for the seven elements that apply action and reaction in one function, the two applications form a +/- pair on two different bodies with the same force and each body's own arm; "
            "frame adjacency at every parseable rotation/transform product. Magnitudes, and the balance of elements whose two spatial forces are computed separately (LinearBushing, CompliantContact, cables), are NOT decided. "
            "FRAME reads the programmer's monogram names (a false-but-conforming rename would fire; a non-conforming one only lowers coverage)."),
    "C35": ("FRAME monogram adjacency over the trackers and collision algorithms; REVERSE rules on the mustReverse handling of ContactTrackerSubsystem (mirror-image calls, stored surface order, type-id pair normalisation); TRAVERSE (bounding-volume-tree descents: every child combination visited once, each node pruned with its own box)",
            "Static decision of two structural clauses of C35 (DESIGN section 3): frame adjacency at every parseable rotation/transform product or named assignment in the contact trackers (a swapped/dropped ~ or wrong transform is wrong for every non-identity pose), "
            "and complete, consistent reversal handling between surface order and tracker order. Overlap tests, depths, tolerance bands and mesh traversal are numerical geometry and NOT decided; about a third of the products carry parseable names on both sides."),
    "C43": ("TOL (every normal return of Assembler::assemble/track behind a successful tolerance test whose tested norm -- and the returned goal -- is that of the configuration left in the State: configuration-epoch analysis over q-changing calls, snapshots and restorations), REVERT, LOCKED (who-writes + free-index confinement + lock-source coverage), BOUNDS, ERRLIST",
            "Static decision of the reporting and confinement clauses of C43 for the Assembler (DESIGN section 3): assemble()/track() can return normally only after `error norm <= getErrorToleranceInUse()` was tested on a norm measured in the configuration that is returned (or copied from a measurement whose configuration was restored from a free-q snapshot taken in that same configuration); "
            "the returned goal likewise; assemble() restores the initial free q's and reports the initial goal when the optimizer made the goal worse; q's of the internal State are written only by tabled functions, optimizer callbacks only through setInternalStateFromFreeQs, which writes free indices only, and the free-index map excludes every prescribed / locked q; "
            "limits reach the optimizer system in (lower, upper) order; every infinite-weight condition with error terms is evaluated into consecutive slots of the vector whose max-abs / RMS is the tested norm. "
            "Optimizer convergence, 'the goal reaches zero for achievable targets', ObservedPointFitter and LocalEnergyMinimizer are numerical / have no result test in the code and are NOT decided."),
    "C15": ("SUM (loop coverage b = 1 .. getNumBodies()-1, zero-initialised accumulators added to exactly once on every iteration path, per-body quantities selected by the loop variable, mass-weighted normalisation discipline) on the seven system aggregates; SWEEP (level / node coverage and order of the kinetic-energy and composite-body-inertia sweeps, child index pairing); DELEGATE",
            "Static decision of the coverage / accumulation clauses of C15 (DESIGN section 3): that the system aggregates ARE sums over the individual bodies -- each of the seven calculators loops over every mobilized body but Ground exactly once, adds each body's contribution to zero-initialised accumulators on every iteration path, takes the contribution from getMobilizedBody(b) of the loop variable, and normalises a mass-weighted average by the very mass it summed (under mass != 0); "
            "kinetic energy covers every node of every non-Ground level; composite-body inertias are swept outermost level first over all nodes, each node adding every child's composite inertia shifted by that same child's phi. "
            "The per-body formulas (parallel-axis shifts, re-expression, station velocities, momentum about the mass centre) are numerical and NOT decided."),
    "C01": ("COLUMNS (calcM / calcMInv built column by column as multiplyByM / multiplyByMInv of a unit vector: zero start, set, apply, reset on every path, column index, full range) and SWEEP (pass order, level direction, node coverage of the O(n) mass-matrix operators and the articulated-body inertia recursion); INDEXSPACE sibling agreement of the hand-written node classes with the generic node template",
            "Static decision of the agreement-of-routes clause of C01 (DESIGN section 3): the explicit mass matrix and its explicit inverse ARE the O(n) operators applied to the unit vectors, so 'explicit matrix' and 'operator' cannot disagree; and each operator visits the tree in the order its recursion needs (inward pass from the outermost level to 0, outward pass from 0 up, every node, pass 1 before pass 2). "
            "That the per-node recursions compute M*v and M^-1*v, symmetry, positive definiteness and KE = u'Mu/2 are numerical and NOT decided."),
    "C02": ("SWEEP (forward dynamics: Pass1 inward then Pass2 outward; inverse dynamics: accelerations outward then forces inward; level direction, node coverage) and SCATTER (prescribed / known-zero udots written over their whole lists before the inward pass); INDEXSPACE / OUTWRITE sibling agreement of the hand-written node classes with the generic node template",
            "Static decision of the sweep-discipline clause of C02 only (DESIGN section 3): the forward-dynamics and inverse-dynamics tree operators visit every node of every level in the direction each pass needs, in pass order, and forward dynamics scatters every prescribed and known-zero udot before sweeping. "
            "That the two recursions are inverses of each other (M*udot + f_inertial = f_applied, zero residuals, J'*F, Coriolis terms) is numerical and NOT decided."),
    "C04": ("COLUMNS (the six explicit system / station / frame Jacobian builders as unit-vector applications of multiplyBySystemJacobian[Transpose]) and SWEEP (Jacobian operator outward, its transpose inward, body accelerations outward); INDEXSPACE / OUTWRITE sibling agreement of the hand-written node classes with the generic node template",
            "Static decision of the agreement-of-routes clause of C04 (DESIGN section 3): every explicit Jacobian is, slot by slot, the O(n) operator applied to a unit vector / unit spatial force (zero start, set, apply, reset on every path, same-index slot, all indices), so explicit matrices and operators are one route; the operator sweeps outward and its transpose inward, each over every node. "
            "That J*u equals the reported velocities, the bias terms and the adjoint identity as an equality of values are numerical and NOT decided."),
    "C44": ("PROJECT (every inequality-carrying row family of the PGS sweep is projected by its bound function, on the same rows, on every path after its update; sweep order; no write of pi after the sweep), CLAMP (shape of the four bound functions), REPORT (convergence reported only under the tolerance test)",
            "Static decision of the projection discipline of the PGS impulse solver (DESIGN section 3, C44): every conditional impulse PGSImpulseSolver::solve can return was, after its last update, passed through the bound function of its family with the same row indices -- unilateral normals through boundUnilateral (zero exactly when pulling), bounded scalars through boundScalar (clamped to [lb, ub]), friction rows through boundVector / boundFriction (every component scaled onto the limit) -- and convergence is reported only under the tolerance test. "
            "Convergence of projected Gauss-Seidel, the values it converges to, the PLUS solver and how the caller builds the row families are NOT decided."),
    "C14": ("COVER (every body receives its reaction), PAIRIDX (per-body arrays indexed by the body being processed; parent data from the body's own parent, only for non-Ground bodies), SWEEP (free-body method inward, hand-over to the parent on every non-root iteration), FRAME (adjacency and point-difference naming) on the two reaction-force routines",
            "Static decision of the coverage / pairing / frame clauses of C14 (DESIGN section 3) for calcMobilizerReactionForces and ...UsingFreebodyMethod: every body gets a reaction, computed from that body's own articulated quantities and its own parent's acceleration, shifted by vectors whose names match how they are built; the free-body variant visits children before parents and hands every child's reaction to its parent's balance. "
            "That the reactions satisfy each body's Newton-Euler equation is numerical and NOT decided."),
    "C39": ("EVALGATE (CMA-ES: resample-into-limits on every path between sampling and evaluation; both limit tests per coordinate; start point tested), PAIR (returned objective belongs to the returned parameters; wrappers evaluate at the array and into the location they were given), STATUS (normal return only after the backend reported convergence), LIMITS (system limits handed to L-BFGS-B / IPOPT in order, bound-code table, constraint rows and tolerance options), SELECT (BestAvailable guards) on the optimizer drivers",
            "Static decision of the driver clauses of C39 (DESIGN section 3): the CMA-ES driver evaluates the objective only at points that passed both limit tests on every coordinate; every driver returns the objective value that belongs to the parameters it returns; L-BFGS-B and IPOPT drivers return normally only when the backend reported convergence and hand the backend the system's own limits, bound codes, constraint rows and tolerances; the default algorithm choice never constructs a driver that ignores limits or constraints the problem has. "
            "Optimality, descent, feasibility of IPOPT / L-BFGS-B iterates and CMA-ES reproducibility are produced inside the vendored solvers and are NOT decided."),
    "C40": ("QUOTIENT (the stored estimate normalised to a linear form sum c_k F(y + k h e_i) over the function values actually obtained; consistency conditions sum c_k = 0, sum c_k k h = 1 and, off the order-1 path, sum c_k k^2 = 0), PERTURB (one coordinate at a time with restore on every path, every parameter, slot i), STEP (step from the displaced coordinate and from the accuracy factor of the path's order; order / factor tables), BASE (the nine shape adapters' unperturbed value belongs to the point) on Differentiator.cpp",
            "Static decision of the difference-scheme clauses of C40 (DESIGN section 3): for every function, dimension and point, each estimate the Differentiator stores is a finite-difference combination of function values taken with exactly one coordinate displaced by +-h, whose coefficients make it exact for affine functions (and, for the central method, for quadratics); the coordinate is restored before the next one is displaced; the step and the accuracy factor belong to the coordinate and to the order used; the base value belongs to the evaluation point. "
            "The size of the truncation and rounding error for a given smooth function -- the bound itself -- is numerical analysis and is NOT decided."),
    "C36": ("TREE (root over all faces; node box from every corner of every face handed to the node; list k to child k; both children or a leaf holding all faces on every path), PARTITION (every face of the parent in exactly one child list), LEAF (whole-leaf scans; face / distance / coordinates written together from the scanned triangle), MERGE (an interior node's answer comes from one child), DROPAXIS (the ray test's projection axes exclude the dominant normal axis, for every ordering of the magnitudes) on ContactGeometry_TriangleMesh.cpp",
            "Static decision of the tree-bookkeeping clauses of C36 (DESIGN section 3) for ContactGeometry::TriangleMesh: for every mesh, each OBB-tree node's box is built from all corners of all the faces the node holds, so 'each node contains its triangles' reduces to 'a box contains the points it was built from'; the leaves partition the faces and every leaf is scanned completely, so a complete descent sees exactly the faces a brute-force scan sees; the face, distance and coordinates reported belong to one triangle and one child. "
            "Containment by OrientedBoundingBox / Geo bounding spheres, the point-triangle and ray-triangle geometry, the soundness of the distance-based pruning of the descents, mesh topology and file round trips are NOT decided."),
    "C30": ("HOMOG (homogeneity-degree typing of the closed-form quadratic: every stored root has degree 0 in the coefficients; sums, differences and comparisons homogeneous; constants compared only as 0), COPY (cubic / general drivers: all n+1 coefficients in order, degree = number of roots asked for, output pair i to root i), STATUS (zero leading coefficient and solver failure codes throw) on PolynomialRootFinder.cpp",
            "Static decision of the scale-invariance and bookkeeping clauses of C30 (DESIGN section 3): the roots returned by the closed-form quadratic code are invariant under scaling of the polynomial (a necessary condition of being its roots for every input), the iterative solvers are handed exactly the polynomial that was given and their output is copied root by root, and failures are reported. "
            "Convergence and accuracy of rpoly / cpoly, the value of a degree-0 formula, Vieta's relations and conjugate pairing are numerical and NOT decided."),
}
NA = {
 "C03": "derivative relation between numeric routines; needs symbolic differentiation (other family)",
 "C05": "needs an independent numerical reference of each documented mobilizer formula",
 "C06": "metamorphic equality of numerical results; the only shape clause is too thin to claim",
 "C11": "conservation along trajectories is a global numerical consequence",
 "C12": "power/energy gradient consistency is numerical (symbolic differentiation excluded)",
 "C20": "global error vs tolerance is numerical analysis",
 "C25": "element-wise value semantics of index arithmetic; no shape rule decides it",
 "C27": "orthonormality and round trips are numerical",
 "C28": "derivative identities between hand-expanded formulas",
 "C29": "numerical identities; rejection clause lives in debug-only checks compiled out",
 "C34": "numerical geometry with iterative solvers",
 "C37": "constitutive formulas, clamps and friction limits are numerical",
 "C41": "derivative/value consistency of formulas is numerical/symbolic",
 "C42": "graph-algorithm post-condition over all input graphs needs a proof of the algorithm, not a shape rule",
 "C45": "lengths, rates and power are numerical; frame lint alone is too little of the property",
 "C47": "on-surface residuals and agreement between integrators are numerical",
}
PLANNED = ["C07","C09","C10","C08","C13","C16","C17","C19","C21","C22","C23","C24","C26","C31","C32","C33","C35","C38","C46"]

def main():
    checks = []
    for pid, (tech, text) in sorted(CLAIMED.items()):
        checks.append({
            "property_id": pid,
            "quick_cmd": "./check %s --tier quick" % pid,
            "thorough_cmd": "./check %s --tier thorough" % pid,
            "evidence_file": "evidence/%s.json" % pid,
            "replay_cmd_template": "./check %s --explain {path}" % pid,
            "engine": "simlint",
            "level_claimed": {"category": "other", "text": text, "design_ref": "DESIGN.md section 3, " + pid},
            "level_note": "Trusted: clang 14 front end/CFG builder, tools/factdump, the simlint rule kernel and the hand-confirmed instance tables in simlint/rules/%s.py; "
                          "rules are path-insensitive (no value reasoning); virtual calls resolved to overriders inside the three libraries only; "
                          "quick tier re-arms the rules on 2-3 instance-breaking variants, thorough tier on the full mutation matrix (variants analysed, never executed)." % pid.lower(),
            "technique": "static analysis: " + tech,
        })
    na = [{"property_id": k, "reason": v} for k, v in sorted(NA.items())]
    for p in PLANNED:
        if p not in CLAIMED:
            na.append({"property_id": p, "reason": "check under construction in this round (see DESIGN.md section 3); not yet claimed"})
    na.sort(key=lambda x: x["property_id"])
    man = {
        "version": 1,
        "setup_cmd": "tools/build.sh",
        "hooks": {"guard": "SIMBODY_VERIF", "enable": "none needed: the analysis reads /repo's tree as it is (no instrumentation)",
                  "baseline_off_cmd": "ctest --test-dir /repo/_build -j8 --timeout 900", "source_commits": [], "add_only": True},
        "engines": [
            {"name": "factdump", "path": "tools/factdump/factdump.cc", "serves_properties": sorted(CLAIMED), "kind_free_text": "libTooling (clang 14) AST/CFG fact extractor, one JSON per translation unit"},
            {"name": "simlint", "path": "simlint/", "serves_properties": sorted(CLAIMED), "kind_free_text": "Python rule kernel: must-pass-through / dominance / who-writes / effect rules over the facts, frozen instance tables, known-findings handling, evidence"},
            {"name": "mutation matrix", "path": "simlint/mutate.py", "serves_properties": sorted(CLAIMED), "kind_free_text": "instance-breaking source variants analysed through --overlay (never executed) to show each rule fires and names the construct"},
        ],
        "checks": checks,
        "not_applicable": na,
        "notes": "All checks are static analysis of /repo's current working tree; exit 2 (ANALYSIS-BROKEN) means an anchor vanished or a unit failed to parse, never a pass.",
    }
    json.dump(man, open(os.path.join(V, "MANIFEST.json"), "w"), indent=1)
    print("MANIFEST.json: %d checks, %d not applicable" % (len(checks), len(na)))

main()
