#!/usr/bin/env python3
"""Robustness experiment (not a registered check): every rule module is re-run on a behaviour-preserving variant of
its anchor files in which ALL function-local variables and parameters were renamed (rn_<name>) by tools/alpharename.
A rule that reports a violation on the variant depends on a local name and is a false alarm in waiting.
FRAME / PAIR-suffix rules read names by design (DESIGN 2.5) and are reported separately.

usage: tools/robust_rename.py [C07 C08 ...]"""
import hashlib, importlib, json, os, subprocess, sys

V = os.path.dirname(os.path.dirname(os.path.abspath(__file__)))
sys.path.insert(0, V)
from simlint import facts, mutate  # noqa: E402

TOOL = os.path.join(V, "tools", "bin", "alpharename")
OUT = os.path.join(V, ".work", "alpha")


def build_tool():
    src = os.path.join(V, "tools", "alpharename", "alpharename.cc")
    if os.path.exists(TOOL) and os.path.getmtime(TOOL) >= os.path.getmtime(src):
        return
    flags = subprocess.run(["llvm-config-14", "--cxxflags"], capture_output=True, text=True).stdout.split()
    subprocess.run(["clang++"] + flags + ["-std=c++17", "-O1", "-fno-rtti", src, "-o", TOOL,
                    "/usr/lib/llvm-14/lib/libclang-cpp.so.14", "/usr/lib/llvm-14/lib/libLLVM-14.so"], check=True)


def variant(unit, target):
    os.makedirs(OUT, exist_ok=True)
    db = facts.compdb()
    h = hashlib.sha1((unit + "|" + target + "|" + open(target, "rb").read().hex()[:0] + facts._sha1_file(target)).encode()).hexdigest()[:16]
    out = os.path.join(OUT, h + os.path.splitext(target)[1])
    if os.path.exists(out) and os.path.getsize(out) > 0:
        return out
    af = out + ".args"
    with open(af, "w") as f:
        f.write("\n".join(db[unit]["args"]))
    r = subprocess.run([TOOL, af, unit, target, out], capture_output=True, text=True)
    if r.returncode != 0 or not os.path.exists(out) or os.path.getsize(out) == 0:
        sys.stderr.write("alpharename failed for %s (%s): %s\n" % (target, unit, r.stderr[-400:]))
        return None
    return out


def main():
    build_tool()
    ids = sys.argv[1:] or sorted(n[:-3].upper() for n in os.listdir(os.path.join(V, "simlint", "rules")) if n.startswith("c") and n.endswith(".py"))
    report = {}
    for cid in ids:
        mod = importlib.import_module("simlint.rules." + cid.lower())
        # pass 1: record which files the module analyses
        seen = []
        real_extract = facts.extract

        def rec_extract(units, hdr=".*", inst="", overlays=(), extra_args=None, jobs=None, nomain=False):
            res = real_extract(units, hdr=hdr, inst=inst, overlays=overlays, extra_args=extra_args, jobs=jobs, nomain=nomain)
            import re
            rx = re.compile(hdr)
            for u, f in zip(units, res):
                if not nomain:
                    seen.append((u, u))
                for d in f.get("deps", []):
                    if d != u and rx.search(d) and d.startswith(facts.REPO) and not d.endswith((".cpp", ".c")):
                        seen.append((u, d))
            return res
        facts.extract = rec_extract
        for m in list(sys.modules.values()):
            if getattr(m, "extract", None) is real_extract:
                m.extract = rec_extract
        base = mutate.Silent(cid, "quick")
        try:
            mod.run(base, "quick")
        finally:
            facts.extract = real_extract
            for m in list(sys.modules.values()):
                if getattr(m, "extract", None) is rec_extract:
                    m.extract = real_extract
        targets = {}
        for u, t in seen:
            targets.setdefault(t, u)
        overlays = []
        for t, u in sorted(targets.items()):
            v = variant(u, t)
            if v:
                overlays.append((t, v))
        chk = mutate.Silent(cid, "quick")
        err = None
        try:
            mod.run(chk, "quick", overlays=tuple(overlays))
        except Exception as e:  # AnalysisBroken and friends
            err = "%s: %s" % (type(e).__name__, e)
        base_bad = {o["key"] for o in base.obl if o["status"] == "violation"}
        bad = [o for o in chk.obl if o["status"] == "violation" and o["key"] not in base_bad]
        by_rule = {}
        for o in bad:
            by_rule.setdefault(o["rule"], []).append(o["key"])
        report[cid] = dict(files=len(overlays), obligations=(len(base.obl), len(chk.obl)), error=err, broken=list(chk.broken), new_violations=by_rule)
        print("%s: %d files renamed; obligations %d -> %d; broken=%s; error=%s" % (cid, len(overlays), len(base.obl), len(chk.obl), chk.broken[:2], err))
        for r, ks in sorted(by_rule.items()):
            print("   %-10s %d new violations, e.g. %s" % (r, len(ks), ks[:3]))
    json.dump(report, open(os.path.join(V, ".work", "robust_rename.json"), "w"), indent=1)


if __name__ == "__main__":
    main()
