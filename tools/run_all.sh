#!/bin/sh
# usage: tools/run_all.sh [quick|thorough]   -- runs every registered check of MANIFEST.json; prints one line per check; exit 1 if any is not 0
cd "$(dirname "$0")/.." || exit 2
tier=${1:-quick}
mkdir -p .work
rc=0
for id in $(python3 -c "import json;print(' '.join(c['property_id'] for c in json.load(open('MANIFEST.json'))['checks']))"); do
  ./check "$id" --tier "$tier" > ".work/run_${tier}_$id.log" 2>&1
  r=$?
  echo "$id $tier exit=$r"
  [ $r -ne 0 ] && rc=1
done
exit $rc
