#!/bin/sh
# re-run every recorded seeded change through the checks and report the ones whose verdict differs from their meta.json
cd /verif
for d in seeded/*/; do
  n=$(basename $d)
  [ -f $d/patch.diff ] || continue
  out=$(python3 tools/try_patches.py /verif/$d/patch.diff 2>&1 | tail -30)
  viol=$(echo "$out" | grep -c VIOLATION)
  nd=$(python3 -c "import json;m=json.load(open('$d/meta.json'));print(1 if m.get('not_detected_reason') else 0)")
  echo "$n viol=$viol notdetected=$nd $(echo "$out" | grep -c 'does not apply')"
done
