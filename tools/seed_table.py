#!/usr/bin/env python3
"""Rewrites the seeded-change table of DESIGN.md section 8 (between the SEEDTABLE markers) from seeded/*/meta.json."""
import glob, json, os, re
V = os.path.dirname(os.path.dirname(os.path.abspath(__file__)))
rows = ["| seeded change | origin | reported by | first version |", "|---|---|---|---|"]
for d in sorted(glob.glob(os.path.join(V, "seeded/*/meta.json"))):
    m = json.load(open(d))
    name = d.split("/")[-2]
    org = m.get("origin", "")
    o = "sub-agent" if org.startswith("independent") else ("known finding" if "KNOWN" in org else "genuine defect (reverse of fix)")
    det = "; ".join(x.split(" (")[0] for x in m.get("detected_by", []))
    first = "missed → rule added" if m.get("initially_missed") else "caught"
    if m.get("not_detected_reason"):
        det, first = "**not detected**: " + m["not_detected_reason"], "outside the static clauses"
    rows.append("| `%s` | %s | %s | %s |" % (name, o, det.replace("|", "/"), first))
p = os.path.join(V, "DESIGN.md")
s = open(p).read()
s = re.sub(r"(?s)<!-- SEEDTABLE -->.*?<!-- /SEEDTABLE -->", "<!-- SEEDTABLE -->\n" + "\n".join(rows) + "\n<!-- /SEEDTABLE -->", s)
open(p, "w").write(s)
print(len(rows) - 2, "seeded changes")
