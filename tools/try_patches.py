#!/usr/bin/env python3
"""Runs the rule modules on patched variants of /repo files WITHOUT touching /repo: each patch (git diff format) is applied
to scratch copies of the files it names, and the copies are handed to the analysis through --overlay.  Used for the
behaviour-preserving refactoring experiment (DESIGN section 7) and for re-checking seeded changes.

usage: tools/try_patches.py <patch-file-or-dir> [--checks C18,C33] [--all]
Prints, per patch, the checks whose analysed files it touches and their verdicts (new violations / broken)."""
import importlib, json, os, re, shutil, subprocess, sys, tempfile

V = os.path.dirname(os.path.dirname(os.path.abspath(__file__)))
sys.path.insert(0, V)
from simlint import facts, mutate  # noqa: E402

REPO = facts.REPO
MAPFILE = os.path.join(V, ".work", "check_files.json")


def all_ids():
    return sorted(n[:-3].upper() for n in os.listdir(os.path.join(V, "simlint", "rules")) if re.match(r"c\d\d\.py$", n))


def files_of(cid, cache={}):
    """files a check analyses in its quick tier (units + repository headers that match its header filter)"""
    if not cache and os.path.exists(MAPFILE):
        cache.update(json.load(open(MAPFILE)))
    if cid in cache:
        return set(cache[cid]["files"]), cache[cid]["baseline"]
    mod = importlib.import_module("simlint.rules." + cid.lower())
    seen = set()
    real = facts.extract

    def rec(units, hdr=".*", inst="", overlays=(), extra_args=None, jobs=None, nomain=False):
        res = real(units, hdr=hdr, inst=inst, overlays=overlays, extra_args=extra_args, jobs=jobs, nomain=nomain)
        rx = re.compile(hdr)
        for u, f in zip(units, res):
            seen.add(u)
            for d in f.get("deps", []):
                if rx.search(d) and d.startswith(REPO):
                    seen.add(d)
        return res
    facts.extract = rec
    patched = [m for m in list(sys.modules.values()) if getattr(m, "extract", None) is real]
    for m in patched:
        m.extract = rec
    chk = mutate.Silent(cid, "quick")
    try:
        mod.run(chk, "quick")
    finally:
        facts.extract = real
        for m in patched:
            m.extract = real
    base = sorted(o["key"] for o in chk.obl if o["status"] == "violation")
    cache[cid] = dict(files=sorted(seen), baseline=base)
    os.makedirs(os.path.dirname(MAPFILE), exist_ok=True)
    json.dump(cache, open(MAPFILE, "w"))
    return seen, base


def touched(patch):
    out = []
    for line in open(patch, errors="replace"):
        m = re.match(r"^\+\+\+ b/(.*)$", line.rstrip("\n"))
        if m:
            out.append(m.group(1))
    return out


def variants(patch):
    """apply the patch to scratch copies of the touched files; returns ([(real, variant)], tmpdir) or (None, reason)"""
    tmp = tempfile.mkdtemp(prefix="trypatch_", dir=os.path.join(V, ".work"))
    files = touched(patch)
    for rel in files:
        src = os.path.join(REPO, rel)
        dst = os.path.join(tmp, rel)
        os.makedirs(os.path.dirname(dst), exist_ok=True)
        if os.path.exists(src):
            shutil.copy(src, dst)
    r = subprocess.run(["git", "apply", "--unsafe-paths", "--directory=" + tmp, os.path.abspath(patch)], capture_output=True, text=True, cwd="/")
    if r.returncode != 0:
        r = subprocess.run(["patch", "-p1", "-s", "-d", tmp, "-i", os.path.abspath(patch)], capture_output=True, text=True)
        if r.returncode != 0:
            shutil.rmtree(tmp, ignore_errors=True)
            return None, (r.stderr or r.stdout)[-300:]
    return [(os.path.join(REPO, rel), os.path.join(tmp, rel)) for rel in files if os.path.exists(os.path.join(tmp, rel))], tmp


def main():
    args = sys.argv[1:]
    only = None
    run_all = "--all" in args
    if "--checks" in args:
        only = args[args.index("--checks") + 1].split(",")
    target = [a for a in args if not a.startswith("--") and a not in (",".join(only or []),)][0]
    patches = sorted(os.path.join(target, f) for f in os.listdir(target) if f.endswith((".diff", ".patch"))) if os.path.isdir(target) else [target]
    ids = only or all_ids()
    summary = []
    for p in patches:
        ov, tmp = variants(p)
        if ov is None:
            print("%s: patch does not apply: %s" % (os.path.basename(p), tmp))
            summary.append((os.path.basename(p), "does-not-apply", {}))
            continue
        real_files = {r for r, _ in ov}
        res = {}
        for cid in ids:
            fs, base = files_of(cid)
            if not run_all and not (real_files & fs):
                continue
            mod = importlib.import_module("simlint.rules." + cid.lower())
            chk = mutate.Silent(cid, "quick")
            err = None
            try:
                mod.run(chk, "quick", overlays=tuple(ov))
            except Exception as e:
                err = "%s: %s" % (type(e).__name__, str(e)[:200])
            newv = sorted(o["key"] for o in chk.obl if o["status"] == "violation" and o["key"] not in base)
            res[cid] = dict(violations=newv, broken=list(chk.broken), error=err)
        shutil.rmtree(tmp, ignore_errors=True)
        bad = {c: r for c, r in res.items() if r["violations"] or r["broken"] or r["error"]}
        print("%s: checks run %s -> %s" % (os.path.basename(p), sorted(res), "clean" if not bad else ""))
        for c, r in sorted(bad.items()):
            for k in r["violations"][:6]:
                print("    %s VIOLATION %s" % (c, k))
            for b in r["broken"][:3]:
                print("    %s BROKEN %s" % (c, b[:200]))
            if r["error"]:
                print("    %s ERROR %s" % (c, r["error"]))
        summary.append((os.path.basename(p), "clean" if not bad else "alarm", bad))
    json.dump(summary, open(os.path.join(V, ".work", "try_patches_last.json"), "w"), indent=1)


if __name__ == "__main__":
    main()
